"""Functions for the concurrency scenarios (C09, C10 concurrent part). Bodies announce themselves.

g / h carry explicit versions; the others are automatically versioned (so the run-time dependency
check applies to them) and form a small call tree: top1 -> mid -> leaf, top2 -> mid -> leaf;
solo_a and solo_b call nothing and are in nobody's dependency closure.
"""
import sys

import twosigma.memento as m
from twosigma.memento.exception import NonMemoizedException


@m.memento_function(cluster="vfc", version="1")
def g(x):
    sys.audit("vf.body", "g", x)
    return "val-%s" % x


@m.memento_function(cluster="vfc", version="1")
def h(x):
    sys.audit("vf.body", "h", x)
    return "other-%s" % x


@m.memento_function(cluster="vfc", version="1")
def gnone(x):
    sys.audit("vf.body", "gnone", x)
    return None


@m.memento_function(cluster="vfc")
def solo_a(x):
    sys.audit("vf.body", "solo_a", x)
    return "a-%s" % x


@m.memento_function(cluster="vfc")
def solo_b(x):
    sys.audit("vf.body", "solo_b", x)
    return "b-%s" % x


@m.memento_function(cluster="vfc")
def leaf(x):
    sys.audit("vf.body", "leaf", x)
    return "leaf-%s" % x


@m.memento_function(cluster="vfc")
def mid(x):
    sys.audit("vf.body", "mid", x)
    return "mid(%s)" % leaf(x)


@m.memento_function(cluster="vfc")
def top1(x):
    sys.audit("vf.body", "top1", x)
    return "top1(%s)" % mid(x)


@m.memento_function(cluster="vfc")
def top2(x):
    sys.audit("vf.body", "top2", x)
    return "top2(%s)" % mid(x)


@m.memento_function(cluster="vfc")
def hid_a(x):
    """Automatic version; reaches solo_a by a run-time lookup the dependency analysis cannot see: must be refused."""
    sys.audit("vf.body", "hid_a", x)
    return "hid(%s)" % globals()["solo" + "_a"](x)


@m.memento_function(cluster="vfc", version="1")
def ex(x):
    """Explicit version (exempt from the run-time dependency check) calling solo_b."""
    sys.audit("vf.body", "ex", x)
    return "ex(%s)" % solo_b(x)


@m.memento_function(cluster="vfc", version="1")
def pa(x):
    from twosigma.memento.partition import InMemoryPartition

    sys.audit("vf.body", "pa", x)
    return InMemoryPartition({"a": "pa-%s" % x, "s": "shared"})


@m.memento_function(cluster="vfc", version="1")
def pb(x):
    from twosigma.memento.partition import InMemoryPartition

    sys.audit("vf.body", "pb", x)
    return InMemoryPartition({"b": "pb-%s" % x, "c": [1, 2], "s": "shared"})


class Transient(NonMemoizedException):
    pass


_runs = {}      # x -> number of body executions of flaky(x) so far (reset by the harness per execution)
_inside = set()  # x currently inside the body of flaky(x)


@m.memento_function(cluster="vfc", version="1")
def flaky(x):
    """First execution fails with a not-to-be-memoized exception, later ones succeed. Two executions of the body for
    the same argument must never overlap (the per-call mutex serialises them)."""
    sys.audit("vf.body", "flaky", x)
    if x in _inside:
        sys.audit("vf.body", "OVERLAP", x)
    _inside.add(x)
    try:
        _runs[x] = _runs.get(x, 0) + 1
        n = _runs[x]
        if n == 1:
            raise Transient("first attempt of flaky(%s) fails" % x)
        return "flaky-%s" % x
    finally:
        _inside.discard(x)


# the reference: what an un-memoized program returns, and the call tree below each call
CALLS = {"hid_a": (), "ex": ("solo_b",), "pa": (), "pb": (), "flaky": (), "gnone": (), "g": (), "h": (), "solo_a": (), "solo_b": (), "leaf": (), "mid": ("leaf",), "top1": ("mid",), "top2": ("mid",)}
_FMT = {"ex": "ex(%s)", "flaky": "flaky-%s", "g": "val-%s", "h": "other-%s", "solo_a": "a-%s", "solo_b": "b-%s", "leaf": "leaf-%s", "mid": "mid(%s)",
        "top1": "top1(%s)", "top2": "top2(%s)"}


CTX = {"k": 1}  # the context arguments a call spelled "name@ctx" is made under


def base(fn):
    return fn.split("!")[0].split("@")[0]


def fobj(fn):
    """The callable a call specification denotes: "name", "name@ctx" (with context arguments), "name!ignore"."""
    f = globals()[base(fn)]
    if "@ctx" in fn:
        f = f.with_context_args(CTX)
    if fn.endswith("!ignore"):
        f = f.ignore_result()
    return f


def expected(fn, x):
    """Value of the plain program; ("raises", class name) where the library must refuse; partitions as dicts."""
    if fn.endswith("!ignore"):
        return None
    fn = base(fn)
    if fn == "gnone":
        return None
    if fn == "hid_a":
        return ("raises", "UndeclaredDependencyError")
    if fn == "pa":
        return {"a": "pa-%s" % x, "s": "shared"}
    if fn == "pb":
        return {"b": "pb-%s" % x, "c": [1, 2], "s": "shared"}
    inner = CALLS[fn]
    return _FMT[fn] % (expected(inner[0], x) if inner else x)


def closure(fn, x):
    """All distinct calls made by fn(x), itself included, in call order. Nested calls inherit the context arguments,
    so they keep the "@ctx" mark: the same function and argument under other context arguments is another call."""
    mark = "@ctx" if "@ctx" in fn else ""
    fn = base(fn)
    if fn == "hid_a":
        return [(fn + mark, x)]  # the hidden call is refused before anything runs beneath it
    out = [(fn + mark, x)]
    for c in CALLS[fn]:
        out += closure(c + mark, x)
    return out

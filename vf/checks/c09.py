"""C09 - concurrent callers: single flight per call, correct values, under every schedule.

Stateless exploration of real threads under the controlled scheduler (vf/sched.py): all
schedules of each scenario up to a preemption bound (iterative context bounding), every
execution on a fresh store / backend / cache; oracle per complete execution.
"""
import itertools
import os
import sys


def preimport():
    # third-party packages first, then the lock factories, then the library
    import numpy  # noqa
    import pandas  # noqa
    import tqdm.auto  # noqa
    import yaml, jinja2, graphviz, dateutil.parser  # noqa
    import concurrent.futures  # noqa
    from .. import sched

    sched.install_lock_factories()
    import twosigma.memento  # noqa


MB = 1024 * 1024

# scenario: (name, backend, warm, calls) ; calls = per-thread list of (fn, arg) ; warm in {cold, store, cache}
BACKENDS = {
    "fs+cache-all": ("fs", 4096),
    "fs+cache-one": ("fs", 64),
    "fs": ("fs", 0),
    "mem": ("mem", 0),
}


def scenarios(tier):
    out = []
    for be in BACKENDS:
        for warm in ("cold", "store", "cache"):
            if warm == "cache" and BACKENDS[be][1] == 0:
                continue
            for keys in ("same", "diff"):
                calls = [[("g", 1)], [("g", 1)]] if keys == "same" else [[("g", 1)], [("g", 2)]]
                out.append(("%s|%s|%s" % (be, warm, keys), be, warm, calls))
    # automatically versioned functions (the run-time dependency check applies): two unrelated functions, and two
    # callers sharing a nested call tree (top1 -> mid -> leaf, top2 -> mid -> leaf)
    for be in (("mem", "fs+cache-all") if tier != "thorough" else ("mem", "fs", "fs+cache-all", "fs+cache-one")):
        out.append(("%s|cold|auto-unrelated" % be, be, "cold", [[("solo_a", 1)], [("solo_b", 2)]]))
        out.append(("%s|cold|nested-shared" % be, be, "cold", [[("top1", 1)], [("top2", 1)]]))
    out.append(("mem|store|nested-shared", "mem", "store", [[("top1", 1)], [("top2", 1)]]))
    # a batch (pre-check and cache fill outside the per-call mutex) against a single call of one of its elements
    for be in (("mem", "fs+cache-one") if tier != "thorough" else ("mem", "fs", "fs+cache-all", "fs+cache-one")):
        out.append(("%s|cold|batch-vs-call" % be, be, "cold", [[("g", [1, 2])], [("g", 2)]]))
    out.append(("fs+cache-one|store|batch-vs-call", "fs+cache-one", "store", [[("g", [1, 2])], [("g", 2)]]))
    # two batches over the same calls in opposite order
    out.append(("mem|cold|opposite-batches", "mem", "cold", [[("g", [1, 2])], [("g", [2, 1])]]))
    # results that are None, and callers that ignore the result: "nothing to return" must not read as "not memoized"
    for be in (("mem", "fs+cache-one") if tier != "thorough" else ("mem", "fs", "fs+cache-all", "fs+cache-one")):
        out.append(("%s|cold|none-result" % be, be, "cold", [[("gnone", 1)], [("gnone", 1)]]))
        out.append(("%s|cold|ignore-result" % be, be, "cold", [[("g!ignore", 1)], [("g!ignore", 1)]]))
    out.append(("fs+cache-one|store|ignore-vs-call", "fs+cache-one", "store", [[("g!ignore", 1)], [("g", 1)]]))
    # the same call spelled directly and through a keyword partial application (one memento, one flight)
    out.append(("mem|cold|partial-spelling", "mem", "cold", [[("g", 1)], [("g%kw", 1)]]))
    out.append(("fs|cold|partial-spelling", "fs", "cold", [[("g%kw", 1)], [("g", 1)]]))
    # call trees that cross (ping(1) -> pong(0) against pong(1) -> ping(0)): the per-call locks must not be taken in a cycle
    out.append(("mem|cold|crossing-trees", "mem", "cold", [[("ping", 1)], [("pong", 1)]]))
    # different calls with byte-identical results / under one key override: afterwards a fresh backend serves them all
    out.append(("fs|cold|equal-results+readback", "fs", "cold", [[("same", 1)], [("same", 2)]]))
    out.append(("fs|cold|shared-override+readback", "fs", "cold", [[("ko", 1)], [("ko", 2)]]))
    # two different partition results stored at the same time (index + value objects each)
    out.append(("fs+cache-one|cold|two-partitions+readback", "fs+cache-one", "cold", [[("pa", 1)], [("pb", 1)]]))
    if tier == "thorough":
        out.append(("fs+cache-one|cold|crossing-trees", "fs+cache-one", "cold", [[("ping", 1)], [("pong", 1)]]))
        out.append(("fs+cache-one|cold|equal-results+readback", "fs+cache-one", "cold", [[("same", 1)], [("same", 2)]]))
    # three callers of a call whose first attempt ends un-memoized (the waiting threads take over one after the other)
    out.append(("mem|cold|flaky-3threads", "mem", "cold", [[("flaky", 1)], [("flaky", 1)], [("flaky", 1)]]))
    if tier == "thorough":
        out.append(("fs|cold|flaky-3threads", "fs", "cold", [[("flaky", 1)], [("flaky", 1)], [("flaky", 1)]]))
        out.append(("fs+cache-all|store|nested-shared", "fs+cache-all", "store", [[("top1", 1)], [("top2", 1)]]))
        out.append(("mem|cold|nested-vs-inner", "mem", "cold", [[("top1", 1)], [("mid", 1)]]))
        out.append(("fs+cache-all|cold|nested-vs-inner", "fs+cache-all", "cold", [[("top1", 1)], [("mid", 1)]]))
        out.append(("fs+cache-one|cold|3threads", "fs+cache-one", "cold", [[("g", 1)], [("g", 1)], [("g", 2)]]))
        out.append(("fs+cache-all|store|3threads", "fs+cache-all", "store", [[("g", 1)], [("g", 2)], [("g", 1)]]))
        out.append(("fs+cache-one|cold|two-fns", "fs+cache-one", "cold", [[("g", 1), ("h", 1)], [("h", 1), ("g", 1)]]))
    return out


_dirs = {}


def _root():
    from ..core import scratch_dir

    pid = os.getpid()
    if pid not in _dirs:
        _dirs[pid] = os.path.join(scratch_dir("c09"), "store")
    return _dirs[pid]


def make_backend(be, root):
    from twosigma.memento.storage_filesystem import FilesystemStorageBackend
    from twosigma.memento.storage_memory import MemoryStorageBackend

    kind, cache = BACKENDS[be]
    if kind == "mem":
        return MemoryStorageBackend()
    kw = {"path": os.path.join(root, "d")}
    if cache:
        kw["memory_cache_mb"] = cache / MB
    return FilesystemStorageBackend(**kw)


def set_backend(b):
    import twosigma.memento as m

    cluster = m.FunctionCluster(name="vfc", storage=b)
    m.Environment.set(m.Environment(name="vfenv", base_dir=os.path.dirname(_root()),
                                    repos=[m.ConfigurationRepository(name="vfrepo", clusters={"vfc": cluster})]))


def prepare(scn):
    """Fresh store / backend / cache in the scenario's initial condition. Returns backend."""
    import twosigma.memento.runner_local as rl
    from .. import storemc
    from ..core import rm
    from ..fixtures import c09fx as fx

    name, be, warm, calls = scn
    root = _root()
    rm(root)
    os.makedirs(root)
    storemc.own_uuids()
    rl._memento_fn_mutex.clear()
    fx._runs.clear()
    fx._inside.clear()
    b = make_backend(be, root)
    set_backend(b)
    if warm != "cold":
        for th in calls:
            for fn, arg in th:
                _invoke(fx, fn, arg)
        if warm == "store" and BACKENDS[be][0] == "fs":
            b = make_backend(be, root)  # same directory, cold cache
            set_backend(b)
        elif warm == "store":
            pass  # memory backend: the object is the store
    rl._memento_fn_mutex.clear()
    return b


def cache_summary(b):
    c = getattr(b, "_memory_cache", None)
    if c is None:
        return None
    ent = {k.split(":")[-1][:12] + k[-6:]: (e.obj_size, bool(e.has_value)) for k, e in c.cache.items()}
    return {"resident": sorted(ent.items()), "usage": c.memory_usage,
            "consistent": c.memory_usage == sum(e.obj_size for e in c.cache.values())
            and sorted(c.lru_deque) == sorted(c.cache) and len(set(c.lru_deque)) == len(c.lru_deque)}


def _invoke(fx, fn, arg):
    """arg is one argument, or a list of arguments = one call_batch over them"""
    if isinstance(arg, list):
        return fx.fobj(fn).call_batch([{"x": a} for a in arg])
    return _plainify(fx.invoke(fn, arg))


def _plainify(v):
    from twosigma.memento.partition import Partition

    if isinstance(v, Partition):
        return {k: v.get(k) for k in sorted(v.list_keys())}
    return v


def _flat(calls):
    """(fn, arg) pairs with batches expanded"""
    return [(fn, a) for fn, arg in calls for a in (arg if isinstance(arg, list) else [arg])]


def thread_body(calls):
    from ..fixtures import c09fx as fx

    def body():
        return [_invoke(fx, fn, arg) for fn, arg in calls]

    return body


_seq_cache = {}


def sequential_outcomes(scn):
    """Cache summaries left by each sequential order of the thread bodies (twin stores)."""
    if scn[0] in _seq_cache:
        return _seq_cache[scn[0]]
    outs = []
    for order in itertools.permutations(range(len(scn[3]))):
        b = prepare(scn)
        for i in order:
            try:
                thread_body(scn[3][i])()
            except Exception:
                pass  # (a call the library refuses, e.g. a hidden call: it leaves the cache as it is)
        s = cache_summary(b)
        outs.append(None if s is None else (s["resident"], s["usage"]))
    _seq_cache[scn[0]] = outs
    return outs


RUNNER_FILES = ("runner_local.py", "call_stack.py", "runner.py")
STORAGE_FILES = ("storage_base.py", "storage_filesystem.py", "storage_memory.py")
WIDE_FILES = ("memento.py", "base.py", "reference.py", "context.py", "configuration.py")

# helpers that only compute strings / build thread-local objects: no scheduling points inside
SKIP_NAMES = ("_get_metadata_path", "_get_function_path", "_get_path", "_escape_key", "_get_path_versioned",
              "_get_non_versioned_link_path", "_get_non_versioned_path", "_get_versions_directory", "to_dict",
              "ensure_correlation_id", "_cache_key_for_memento", "_cache_key_for_fn", "_estimate_object_size",
              "_get_memento_key", "_get_metadata_key")


def files(names):
    import twosigma.memento as m
    from ..fixtures import c09fx

    d = os.path.dirname(m.__file__)
    # the bodies of the fixture functions are traced too: a thread can be preempted inside a body
    return tuple(os.path.join(d, f) for f in names) + (c09fx.__file__,)


def granularity(gran):
    """(line_files, call_files): 'full' = line points in runner + storage code; 'runner' = line points in
    the runner / call-stack code, one point per function call in the storage code."""
    from ..fixtures import c09fx

    if gran == "full":
        return files(RUNNER_FILES + STORAGE_FILES), ()
    if gran == "wide":  # also the function object / reference / context / configuration layers above the runner
        return files(RUNNER_FILES + STORAGE_FILES + WIDE_FILES), ()
    if gran == "calls":  # line points only inside the function bodies; one point per call into runner / storage code
        return (c09fx.__file__,), files(RUNNER_FILES + STORAGE_FILES)[:-1]
    return files(RUNNER_FILES), files(STORAGE_FILES)[:-1]


def opcode_codes():
    from twosigma.memento.storage_base import MemoryCache

    codes = []
    for v in vars(MemoryCache).values():
        f = getattr(v, "__func__", v)
        if hasattr(f, "__code__"):
            codes.append(f.__code__)
    return frozenset(codes)


def provenance(calls):
    """Recorded provenance of every call in the call trees of the scenario vs the static call tree."""
    from ..fixtures import c09fx as fx

    seen = []
    for c in calls:
        for fn, arg in _flat(c):
            for k in fx.closure(fn, arg):
                if k not in seen:
                    seen.append(k)
    qn = lambda f: fx.fobj(f).fn_reference().qualified_name  # noqa
    for fn, arg in seen:
        mm = fx.fobj(fn).memento(arg)
        if mm is None:
            return ("no-memento", "no memento recorded for %s(%s)" % (fn, arg))
        got_inv = [(i.fn_reference.qualified_name, i.arg_hash) for i in mm.invocation_metadata.invocations]
        mark = "@ctx" if "@ctx" in fn else ""
        want_inv = [(qn(c), fx.fobj(c).fn_reference().with_args(arg, _memento_context_args=fx.CTX if mark else None).arg_hash) for c in fx.CALLS[fx.base(fn)]]
        got_dep = sorted(d.qualified_name for d in mm.function_dependencies)
        want_dep = sorted({qn(f) for f, _ in fx.closure(fn, arg)})
        short = lambda L: [a.split(":")[-1].split("#")[0] for a in L]  # noqa
        if got_inv != want_inv:
            return ("invocations", "invocations of %s(%s): recorded %s, the body called %s" % (fn, arg, short(a for a, _ in got_inv), short(a for a, _ in want_inv)))
        if got_dep != want_dep:
            return ("dependencies-%s" % ("missing" if set(want_dep) - set(got_dep) else "extra"),
                    "dependencies of %s(%s): recorded %s, transitively invoked %s" % (fn, arg, short(got_dep), short(want_dep)))
    return None


def context_oracle(calls):
    """Every call is stored under exactly the context arguments it was made (or inherited) with."""
    from ..fixtures import c09fx as fx

    for c in calls:
        for fn0, arg in _flat(c):
            for fn, a in fx.closure(fn0, arg):
                f = getattr(fx, fx.base(fn))
                with_ctx = f.with_context_args(fx.CTX).memento(a) is not None
                without = f.memento(a) is not None
                want_with = any((fx.base(fn) + "@ctx", a) in fx.closure(g, b) for cc in calls for g, b in _flat(cc))
                want_without = any((fx.base(fn), a) in fx.closure(g, b) for cc in calls for g, b in _flat(cc))
                if (with_ctx, without) != (want_with, want_without):
                    return ("context-identity", "%s(%s): memento under the context arguments: %s (expected %s), without: %s (expected %s)"
                            % (fx.base(fn), a, with_ctx, want_with, without, want_without))
    return None


def readback_oracle(scn):
    """What was stored is right: a fresh backend on the same directory (cold cache) serves every call, correct and without running a body."""
    from .. import audit
    from ..fixtures import c09fx as fx

    name, be, warm, calls = scn
    if BACKENDS[be][0] != "fs":
        return None
    set_backend(make_backend(be, _root()))
    audit.bodies_reset()
    for c in calls:
        for fn, arg in _flat(c):
            want = fx.expected(fn, arg)
            if isinstance(want, tuple) and want and want[0] == "raises":
                continue
            try:
                got = _invoke(fx, fn, arg)
            except Exception as e:
                return ("read-back-raised", "after the threads finished, %s(%s) read from the store raised %r" % (fn, arg, e))
            if got != want:
                return ("read-back-value", "after the threads finished, %s(%s) read from the store gives %r, expected %r" % (fn, arg, got, want))
    if audit.bodies():
        return ("read-back-recomputed", "after the threads finished, calls ran bodies again: %s" % [b[0] for b in audit.bodies()])
    return None


def flaky_oracle(s, calls, bodies):
    """n threads call flaky(1), whose first execution raises a not-to-be-memoized exception: exactly one caller sees that
    exception, the others get the value, the body ran exactly twice and never twice at the same time."""
    from ..fixtures import c09fx as fx

    if any(b[0] == "OVERLAP" for b in bodies):
        return ("body-overlap", "two threads were inside the body of flaky(1) at the same time (bodies: %s)" % [b[0] for b in bodies])
    failed = [i for i, e in enumerate(s.exc) if e is not None]
    for i in failed:
        if not isinstance(s.exc[i], fx.Transient):
            return ("escaped-error", "thread %d: %r escaped to the caller" % (i, s.exc[i]))
    runs = sum(1 for b in bodies if b[0] == "flaky")
    if len(failed) != 1 or runs != 2:
        return ("single-flight", "flaky(1) called by %d threads: %d callers saw the first attempt fail, body ran %d times (expected 1 and 2)"
                % (len(calls), len(failed), runs))
    for i, c in enumerate(calls):
        if i not in failed and s.ret[i] != [fx.expected(fn, arg) for fn, arg in c]:
            return ("wrong-value", "thread %d got %r" % (i, s.ret[i]))
    return None


def run_once(scn, prefix, opcodes=False, gran="full", prov=False):
    """One execution. Returns (trace, observation token, violation or None)."""
    from .. import audit, sched
    from ..core import HarnessError
    from ..fixtures import c09fx as fx

    b = prepare(scn)
    name, be, warm, calls = scn
    audit.bodies_reset()
    lf, cf = granularity(gran)
    s = sched.Scheduler(len(calls), prefix, lf, opcode_codes=opcode_codes() if opcodes else None, call_files=cf,
                        skip_names=SKIP_NAMES)
    s.run([thread_body(c) for c in calls])
    if s.divergence:
        raise HarnessError("replay divergence in %s prefix=%s: %s" % (name, list(prefix), s.divergence))
    bodies = audit.bodies()
    bad = None
    if s.deadlock:
        bad = ("deadlock", "no enabled thread: %s" % (s.status,))
    elif s.livelock:
        bad = ("livelock", "execution exceeded the horizon of %d scheduling points" % s.max_points)
    elif any(fn == "flaky" for c in calls for fn, _ in c):
        bad = flaky_oracle(s, calls, bodies)
        token = "%s|%s|%s" % (name, [repr(r) if e is None else type(e).__name__ for r, e in zip(s.ret, s.exc)], len(bodies))
        return s.trace, token, bad, s.npoints
    else:
        for i, c in enumerate(calls):
            want = [fx.expected(fn, arg) if not isinstance(arg, list) else [fx.expected(fn, a) for a in arg] for fn, arg in c]
            refusal = next((w for w in want if isinstance(w, tuple) and w and w[0] == "raises"), None)
            if refusal is not None:  # (a thread with a call that must be refused makes only that call)
                if s.exc[i] is None:
                    bad = ("not-refused", "thread %d: %s returned %r instead of raising %s" % (i, c, s.ret[i], refusal[1]))
                    break
                if type(s.exc[i]).__name__ != refusal[1]:
                    bad = ("escaped-error", "thread %d: %r escaped to the caller (expected %s)" % (i, s.exc[i], refusal[1]))
                    break
                continue
            if s.exc[i] is not None:
                bad = ("escaped-error", "thread %d: %r escaped to the caller" % (i, s.exc[i]))
                break
            if s.ret[i] != want:
                bad = ("wrong-value", "thread %d got %r, expected %r" % (i, s.ret[i], want))
                break
    if bad is None:
        distinct = {k for c in calls for fn, arg in _flat(c) for k in fx.closure(fn, arg)}
        per = {}
        for fn, arg in distinct:  # the same function and argument under other context arguments is another call
            per[(fx.base(fn), arg)] = per.get((fx.base(fn), arg), 0) + 1
        for (fn, arg), cnt in sorted(per.items()):
            n = sum(1 for bd in bodies if bd[0] == fn and bd[1] == arg)
            want = 0 if warm != "cold" else cnt
            if n != want:
                bad = ("single-flight", "body of %s(%s) ran %d times, expected %d" % (fn, arg, n, want))
                break
    summ = cache_summary(b)
    if bad is None and summ is not None:
        if not summ["consistent"]:
            bad = ("cache-accounting", "cache usage counter %s does not match the resident entries %s" % (summ["usage"], summ["resident"]))
        elif (summ["resident"], summ["usage"]) not in sequential_outcomes(scn):
            bad = ("cache-not-sequential", "final cache %s / usage %s is not what any sequential order leaves (%s)"
                   % (summ["resident"], summ["usage"], sequential_outcomes(scn)))
    if bad is None and prov is True:
        bad = provenance(calls)
    if bad is None and prov == "ctx":
        bad = context_oracle(calls)
    if bad is None and prov == "readback":
        bad = readback_oracle(scn)
    token = "%s|%s|%s|%s" % (name, [repr(r) for r in s.ret], len(bodies), (summ["resident"], summ["usage"]) if summ else None)
    return s.trace, token, bad, s.npoints


def explore_subtree(args):
    """DFS below one prefix with the remaining preemption budget (iterative context bounding).
    args = (scenario, prefix, bound, opts) ; opts = {opcodes, cap, gran, prov, prop}"""
    from .. import sched

    scn, prefix, bound, opts = args
    opcodes, cap, gran, prov = opts.get("opcodes", False), opts.get("cap", 150), opts.get("gran", "full"), opts.get("prov", False)
    out = {"evaluations": 0, "transitions": 0, "traces": 0, "violations": [], "outcomes": set(), "points": 0, "caps": []}
    stack = [tuple(prefix)]
    while stack:
        p = stack.pop()
        trace, token, bad, npoints = run_once(scn, p, opcodes, gran, prov)
        out["evaluations"] += 1
        out["traces"] += 1
        out["transitions"] += len(trace)
        out["points"] = max(out["points"], npoints)
        out["outcomes"].add(token)
        if bad:
            npre = sched.preemptions_before(trace, len(trace))
            sig = "%s|%s|preemptions=%d" % (scn[0], bad[0], npre)
            if gran != "full":
                sig += "|gran=" + gran
            choices = [c for (_, c, _) in trace]
            out["violations"].append((sig, bad[1] + "\nscenario=%s schedule(choice vector)=%s" % (scn[0], _compress(choices)),
                                      {"scenario": scn[0], "tier_scn": list(map(str, scn[:3])), "calls": scn[3], "choices": choices,
                                       "opcodes": opcodes, "gran": gran, "prov": prov}))
            continue
        stack.extend(sched.children(trace, len(p), bound))
        if cap and out["evaluations"] >= cap:
            break
    out["outcomes"] = sorted(out["outcomes"])
    out["scenario"] = scn[0]
    # whatever is left of this subtree goes back to the queue as new tasks
    more = [(scn, p, bound, opts) for p in stack]
    return out, more


def _compress(choices):
    idx = [(i, c) for i, c in enumerate(choices) if c]
    return "len=%d nonzero=%s" % (len(choices), idx)


def run(ctx):
    from .. import sched
    from ..core import pmap_dynamic, HarnessError

    CAP = 150
    thorough = ctx.tier == "thorough"
    bound = 2 if thorough else 1
    ctx.rule = ("all schedules of 2 (thorough: also 3) threads each making one (or two) memoized call(s), for "
                "{cold store, warm store + cold cache, warm cache} x {same key, different keys} x {fs+cache fitting all, "
                "fs+cache fitting one entry, fs without cache, memory backend}, scheduling points at every line of the runner/"
                "storage/cache/call-stack code and every library lock acquisition, up to preemption bound %d (bound 0..%d "
                "complete). distinct = distinct (returned values, body count, final cache) observations." % (bound, bound))
    ctx.assumptions += ["granularity 'wide' adds line points in memento.py, base.py, reference.py, context.py, configuration.py (bound 1)",
                        "a switch can only happen at a line boundary of the traced files or at a lock acquisition "
                        "(CPython switches threads at bytecode boundaries; thorough adds opcode-level points in MemoryCache)",
                        "untraced library modules (argument hashing, codecs) only touch thread-local data"]
    scns = scenarios(ctx.tier)
    # determinism self-checks: default schedule and one forced preemption, each twice
    t1 = run_once(scns[0], ())
    t2 = run_once(scns[0], ())
    ctx.selfcheck("default schedule replays identically", t1[0] == t2[0] and t1[1] == t2[1], "%s vs %s" % (t1[1], t2[1]))
    mid = tuple([0] * (len(t1[0]) // 2) + [1])
    u1 = run_once(scns[0], mid)
    u2 = run_once(scns[0], mid)
    ctx.selfcheck("schedule with a forced preemption replays identically", u1[0] == u2[0] and u1[1] == u2[1])
    tasks = []
    per = {}
    for scn in scns:
        trace, token, bad, npoints = run_once(scn, (), prov="readback" if "+readback" in scn[0] else False)
        if bad:
            ctx.violation("%s|%s|preemptions=0" % (scn[0], bad[0]), bad[1] + "\nscenario=%s default schedule" % scn[0],
                          {"scenario": scn[0], "calls": scn[3], "choices": [], "opcodes": False, "gran": "full", "prov": "readback" if "+readback" in scn[0] else False})
        per[scn[0]] = {"points_default_schedule": npoints, "choice_points": len(trace)}
        b = 1 if (len(scn[3]) > 2 or any(len(c) > 1 for c in scn[3])) and thorough else bound
        tasks.append((scn, (), b, {"cap": CAP, "prov": "readback" if "+readback" in scn[0] else False}))  # from the default schedule (bound 0) upwards
    # bound 2 at runner granularity for the cold-store scenarios (single-flight protocol)
    for scn in scns:
        if scn[2] == "cold" and len(scn[3]) == 2 and "nested" not in scn[0] and (thorough or scn[0] == "fs+cache-one|cold|same"):
            trace, _, _, _ = run_once(scn, (), False, "runner")
            per[scn[0]]["choice_points_runner_granularity"] = len(trace)
            tasks.append((scn, (), 2, {"cap": CAP, "gran": "runner"}))
    # bound 1 with line points also in the layers above the runner (version cache, references, contexts, configuration)
    for scn in scns:
        if len(scn[3]) == 2 and (thorough or scn[0] in ("mem|cold|auto-unrelated", "mem|cold|nested-shared")):
            tasks.append((scn, (), 1, {"cap": CAP, "gran": "wide"}))
    # the hand-over of the per-call mutex between three callers: bound 2 (thorough 3) with one point per call into the
    # runner / storage code and line points inside the function body
    for scn in scns:
        if "flaky" in scn[0]:
            tasks.append((scn, (), 3 if thorough and scn[1] == "mem" else 2, {"cap": CAP, "gran": "calls"}))
    if thorough:
        # opcode-granularity points inside MemoryCache for the cache scenarios, bound 1
        for scn in scns:
            if "cache" in scn[1] and len(scn[3]) == 2 and all(len(c) == 1 for c in scn[3]):
                tasks.append((scn, (), 1, {"cap": CAP, "opcodes": True}))
    if ctx.seed:
        import random

        random.Random(ctx.seed).shuffle(tasks)
    res = pmap_dynamic(explore_subtree, tasks)
    ctx.merge(res)
    for r in res:
        d = per[r["scenario"]]
        d["executions"] = d.get("executions", 0) + r["evaluations"]
    ctx.extra["scenarios"] = per
    ctx.extra["preemption_bound_completed"] = bound
    ctx.states = ctx.evaluations
    ctx.sample({"scenario": scns[0][0], "default_schedule_choice_points": len(t1[0]), "forced_preemption_prefix_len": len(mid)})
    ctx.sample({"scenario": tasks[-1][0][0], "prefix": list(tasks[-1][1])[-5:], "prefix_len": len(tasks[-1][1])})


def concurrent_part(ctx, scns, prov, what, bound=1, gran="full", deep=None):
    """Used by the checks of other properties (C14, C16, C17): all schedules of the given two-thread scenarios up to the
    preemption bound, with the extra oracle `prov`; violations are reported under the calling property with a
    "concurrent|" prefix. Needs `preimport = c09.preimport` in the calling check module."""
    from ..core import pmap_dynamic

    tasks = [(scn, (), bound, {"cap": 150, "prov": prov, "gran": gran}) for scn in scns]
    if deep:  # a second, deeper pass at a coarser granularity: (bound, granularity for the in-memory store, granularity otherwise)
        tasks += [(scn, (), deep[0], {"cap": 150, "prov": prov, "gran": deep[1] if scn[1] == "mem" else deep[2]}) for scn in scns]
    t1 = run_once(scns[0], (), prov=prov)
    t2 = run_once(scns[0], (), prov=prov)
    ctx.selfcheck("concurrent part: default schedule replays identically", t1[0] == t2[0] and t1[1] == t2[1])
    if t1[2]:
        ctx.violation("concurrent|%s|%s|preemptions=0" % (scns[0][0], t1[2][0]), t1[2][1], {"scenario": scns[0][0], "calls": scns[0][3], "choices": [], "prov": prov, "gran": "full",
                                                                                             "scn": list(scns[0])})
    res = pmap_dynamic(explore_subtree, tasks)
    n = 0
    for r in res:
        n += r["evaluations"]
        r["violations"] = [("concurrent|" + k, w, dict(a, scn=[x for x in next(s for s in scns if s[0] == a["scenario"])])) for k, w, a in r["violations"]]
    ctx.merge(res)
    ctx.states += n
    ctx.extra["concurrent"] = {"scenarios": [s[0] for s in scns], "schedules_executed": n, "preemption_bound": bound, "granularity": gran}
    if deep:
        ctx.extra["concurrent"]["second_pass"] = {"preemption_bound": deep[0], "granularity": {"memory store": deep[1], "otherwise": deep[2]}}
    ctx.rule += " Concurrent part: %s; every schedule of two threads up to %d preemption(s) under the controlled scheduler of C09%s." % (
        what, bound, " (and up to %d at %s / %s granularity)" % deep if deep else "")


def replay_concurrent(prop, art):
    a = art["artefact"]
    scn = tuple(a["scn"][:3]) + ([[tuple(c) if not isinstance(c[1], list) else (c[0], c[1]) for c in th] for th in a["scn"][3]],)
    trace, token, bad, npoints = run_once(scn, tuple(a["choices"]), a.get("opcodes", False), a.get("gran", "full"), a.get("prov", False))
    print("observation:", token)
    print("REPLAY property=%s result=%s" % (prop, bad))
    return 1 if bad else 0


def replay(ctx, art):
    a = art["artefact"]
    scn = next((s for s in scenarios("thorough") if s[0] == a["scenario"]), None)
    trace, token, bad, npoints = run_once(scn, tuple(a["choices"]), a.get("opcodes", False), a.get("gran", "full"), a.get("prov", False))
    print("observation:", token)
    print("REPLAY property=C09 result=%s" % (bad,))
    return 1 if bad else 0

"""Model checking of storage backends against a plain dictionary (shared by C05, C07, C19).

``StoreRun`` owns one real backend (fresh directories, deterministic uuids) and the reference
``DictStore``; ``step(op)`` applies one operation to both and compares the answers;
``probe()`` compares the *whole* state through a second, cache-less backend object opened on
the same directories (or, for the memory backend, through its own read API), and checks that
every cache-resident value is the current one.
"""
import os
import re
import sys

from .core import HarnessError, rm
from . import storeh

MB = 1024 * 1024
OVK = "ov/k#1"  # the shared key override: contains the separator characters of the key#version encoding

KEYS = [("fn#1", 1), ("fn#1", 2), ("fn#10", 1), ("fn1#1", 1)]

BACKENDS = {
    # name: (kind, separate metadata path, cache bytes)
    "mem": ("mem", False, 0),
    "fs": ("fs", False, 0),
    "fs+m": ("fs", True, 0),
    "fsc4": ("fs", False, 4096),
    "fsc4+m": ("fs", True, 4096),
    "fsc64": ("fs", False, 65536),
}

_UUID_RE = re.compile(rb"[0-9a-f]{8}-[0-9a-f]{4}-[0-9a-f]{4}-[0-9a-f]{4}-[0-9a-f]{12}")
_TICK_RE = re.compile(rb"(?:v|cid_)(\d{6})")


class _Uuid:
    n = 0

    def __init__(self):
        _Uuid.n += 1
        self.s = "00000000-0000-4000-8000-%012x" % _Uuid.n
        self.hex = self.s.replace("-", "")

    def __str__(self):
        return self.s


def own_uuids():
    import twosigma.memento.storage_filesystem as sf

    import random

    random.seed(12345)  # whatever the library draws from the process PRNG is reproducible per run
    if hasattr(sf, "uuid4"):
        sf.uuid4 = _Uuid
    _Uuid.n = 0


class Stateful:
    """A result element that serializes differently every time it is dumped (a counter is part of its pickled state)."""
    dumps = 0

    def __init__(self, tag):
        self.tag = tag

    def __getstate__(self):
        Stateful.dumps += 1
        return {"tag": self.tag, "dump": Stateful.dumps}

    def __setstate__(self, st):
        self.tag = st["tag"]

    def __eq__(self, other):
        return isinstance(other, Stateful) and other.tag == self.tag

    def __hash__(self):
        return hash(self.tag)

    def __repr__(self):
        return "Stateful(%r)" % self.tag


def value_of(cls, tick, budget):
    tag = "v%06d" % tick
    if cls == "G":
        return [tag, Stateful(tag)]
    if cls in ("s", "t"):
        return tag + cls
    if cls == "L":
        return tag + "L" * int((budget or 4096) * 0.6)
    if cls == "X":
        return tag + "X" * ((budget or 4096) + 64)
    if cls in ("A", "AX"):  # weak-referenceable results (numpy arrays) the caller keeps holding: small / oversize
        import numpy as np

        n = 40 if cls == "A" else (budget or 4096) + 64
        return np.frombuffer((tag + "A" * n).encode(), dtype=np.int8).copy()
    if cls == "N":
        return None
    if cls == "E":
        return ValueError(tag + " boom")
    if cls == "D":  # constant bytes: identical across keys and writes (dedup path)
        return "same-bytes"
    if cls == "P":  # partition: index blob + one blob per key; key "b" has shared bytes
        from twosigma.memento.partition import InMemoryPartition

        return InMemoryPartition({"a": tag + "a", "b": "same-bytes"})
    raise HarnessError("unknown value class %r" % cls)


def cls_is_array(v):
    return type(v).__name__ == "ndarray"


def short(v):
    """Short text of a cached value for the canonical form (write tick visible)."""
    if cls_is_array(v):
        return v.tobytes()[:12].decode("ascii", "replace")
    return repr(v)[:12]


class DictStore:
    """The reference: a plain dictionary keyed by (function name with version, arg)."""

    def __init__(self):
        self.d = {}  # key index -> dict(tick, cls, meta: {mkey: (bytes, with_data, valid)})
        self.dm = {}  # key index -> {mkey: (bytes, False, True)}: metadata recorded for a call that has no memento (yet / any more)

    def live(self, ki):
        return ki in self.d

    def memoize(self, ki, tick, cls):
        old = self.d.get(ki)
        meta = old["meta"] if old else self.dm.pop(ki, {})
        # metadata stored with the *data* of a superseded result is undefined from now on
        meta = {k: (v[0], v[1], v[2] and not v[1]) for k, v in meta.items()}
        self.d[ki] = {"tick": tick, "cls": cls, "meta": meta}

    def forget(self, kis):
        for ki in list(kis):
            self.d.pop(ki, None)
            self.dm.pop(ki, None)

    def canon(self, rank):
        return (tuple(sorted((ki, rank(e["tick"]), e["cls"], tuple(sorted(e["meta"].items())))
                             for ki, e in self.d.items())),
                tuple(sorted((ki, tuple(sorted(mm.items()))) for ki, mm in self.dm.items() if mm)))


class StoreRun:
    def __init__(self, backend, root, keys=KEYS, read_only=False, prepopulate=None):
        from twosigma.memento.storage_filesystem import FilesystemStorageBackend
        from twosigma.memento.storage_memory import MemoryStorageBackend

        self.name = backend
        self.kind, self.sep_meta, self.budget = BACKENDS[backend]
        self.keys = keys
        self.root = root
        self.model = DictStore()
        self.tick = 0
        self.mem = {}  # ki -> memento object last written (real object, content_key filled in)
        self.log = []
        self.written_blobs = {}  # for C07: ki -> (content_key, bytes at creation)
        self.faulted = False
        self.held = {}  # ki -> weak-referenceable result object the "caller" still holds
        self.kept = {}  # ki -> a superseded one it holds as well
        if self.kind == "fs":
            rm(root)
            if os.path.lexists(root):
                # (the tree of the previous history could not be removed completely: continue in a directory of its own)
                n = 0
                while os.path.lexists("%s.%d" % (root, n)):
                    n += 1
                root = "%s.%d" % (root, n)
                self.root = root
            os.makedirs(root)
            own_uuids()
            self.dpath = os.path.join(root, "d")
            self.mpath = os.path.join(root, "m") if self.sep_meta else None
            kw = {"path": self.dpath}
            if self.mpath:
                kw["metadata_path"] = self.mpath
            if self.budget:
                kw["memory_cache_mb"] = self.budget / MB
            self.be = FilesystemStorageBackend(**kw)
            # a second spelling of the same directories (through a symbolic link), used by the "reopen" op
            self.spell = 0
            self.alt_root = root.rstrip("/") + ".ln"
            if os.path.islink(self.alt_root):
                os.unlink(self.alt_root)
        else:
            self.be = MemoryStorageBackend()

    # ------------------------------------------------------------------------------------------
    def fresh_view(self):
        """A second, cache-less backend object on the same directories (fs only)."""
        from twosigma.memento.storage_filesystem import FilesystemStorageBackend

        kw = {"path": self.dpath}
        if self.mpath:
            kw["metadata_path"] = self.mpath
        return FilesystemStorageBackend(**kw)

    def sym_arg(self, ki):
        return self.keys[ki]

    # ------------------------------------------------------------------------------------------
    def same_value(self, got, ki):
        e = self.model.d[ki]
        want = value_of(e["cls"], e["tick"], self.budget)
        if isinstance(want, Exception):
            from twosigma.memento.exception import MementoException

            return (isinstance(got, MementoException) and got.message == str(want)
                    and got.exception_name == "python::builtins:ValueError")
        from twosigma.memento.partition import Partition

        if isinstance(want, Partition):
            if not isinstance(got, Partition):
                return False
            if list(got.list_keys()) != list(want.list_keys()):
                return False
            return all(got.get(k) == want.get(k) for k in want.list_keys())
        if cls_is_array(want):
            return cls_is_array(got) and got.dtype == want.dtype and got.shape == want.shape and bool((got == want).all())
        return type(got) is type(want) and got == want

    def check_memento(self, got, ki):
        """None or description of how the memento differs from what the model holds."""
        if not self.model.live(ki):
            return None if got is None else "memento returned for a key that is not live"
        if got is None:
            return "no memento for a live key"
        e = self.model.d[ki]
        sym, arg = self.keys[ki]
        fra = got.invocation_metadata.fn_reference_with_args
        if fra.fn_reference.qualified_name != storeh.qname(sym):
            return "memento names %s, expected %s" % (fra.fn_reference.qualified_name, storeh.qname(sym))
        if fra.arg_hash != storeh.refargs(sym, arg).arg_hash:
            return "memento has another argument hash"
        if got.correlation_id != "cid_%06d" % e["tick"]:
            return "memento is write %s, last write was cid_%06d" % (got.correlation_id, e["tick"])
        from twosigma.memento.metadata import ResultType
        from twosigma.memento.exception import MementoException

        want = value_of(e["cls"], e["tick"], self.budget)
        if isinstance(want, Exception):
            want = MementoException.from_exception(want)
        if got.invocation_metadata.result_type != ResultType.from_object(want):
            return "memento result type %s" % got.invocation_metadata.result_type
        return None

    # ------------------------------------------------------------------------------------------
    def step(self, op):
        """Apply op to the real backend and the model. Return None or (clause, description)."""
        bad = None
        try:
            bad = self._step(op)
        except HarnessError:
            raise
        except Exception as e:  # an exception escaping a storage operation
            import traceback

            bad = ("raised", "%s raised %r\n%s" % (op[0], e, traceback.format_exc(limit=6)))
        self.log.append({"op": list(op), "bad": bad})
        return bad

    def reopen(self):
        """Continue on a new backend object that reaches the same directories under the other spelling of their path
        (real path <-> through a symbolic link). The memory cache, if any, starts empty."""
        from twosigma.memento.storage_filesystem import FilesystemStorageBackend

        if not os.path.islink(self.alt_root):
            os.symlink(self.root, self.alt_root)
        self.spell ^= 1
        base = self.alt_root if self.spell else self.root
        kw = {"path": os.path.join(base, "d")}
        if self.mpath:
            kw["metadata_path"] = os.path.join(base, "m")
        if self.budget:
            kw["memory_cache_mb"] = self.budget / MB
        self.be = FilesystemStorageBackend(**kw)

    def _step(self, op):
        be, m = self.be, self.model
        kind = op[0]
        if kind == "reopen":
            if self.kind == "fs":
                self.reopen()
            return None
        if kind == "memo":
            _, ki, cls, override = op[:4]
            if len(op) > 4:
                import random

                random.seed(7)
            sym, arg = self.keys[ki]
            self.tick += 1
            val = value_of(cls, self.tick, self.budget)
            mem = storeh.mk_memento(sym, arg, val, self.tick)
            mem.correlation_id = "cid_%06d" % self.tick
            from twosigma.memento.exception import MementoException

            stored = MementoException.from_exception(val) if isinstance(val, Exception) else val
            be.memoize(override, mem, stored)
            if ki in self.held:  # the caller keeps holding the array an earlier memoization of this call gave it
                self.kept[ki] = self.held.pop(ki)
            if cls_is_array(val):
                self.held[ki] = val
            self.mem[ki] = mem
            m.memoize(ki, self.tick, cls)
            if self.kind == "fs" and mem.content_key is not None:
                self.written_blobs[ki] = (mem.content_key, self.blob_bytes(mem.content_key), bool(override))
            else:
                self.written_blobs.pop(ki, None)
            return None
        if kind == "torn_link_forget":
            # the call is memoized again and the write of its memento LINK fails after the file was opened for writing (the link
            # is left empty); then the call is forgotten: whatever the torn entry was, nothing of it may remain or get in the way
            from .faultfs import FaultFS

            ki = op[1]
            if self.kind != "fs" or not m.live(ki):
                return None
            sym, arg = self.keys[ki]
            self.tick += 1
            self.faulted = True
            val = value_of(m.d[ki]["cls"] if m.d[ki]["cls"] in ("s", "D") else "s", self.tick, self.budget)
            mem = storeh.mk_memento(sym, arg, val, self.tick)
            mem.correlation_id = "cid_%06d" % self.tick
            fs = FaultFS([self.root])
            fs.match = ("open-w", ".memento.json.link", "err_write")
            fs.install()
            try:
                try:
                    be.memoize(None, mem, val)
                except OSError:
                    pass
            finally:
                fs.uninstall()
            be.forget_call(storeh.rah(sym, arg))
            m.forget([ki])
            self.mem.pop(ki, None)
            self.held.pop(ki, None)
            self.written_blobs.pop(ki, None)
            return None
        if kind == "memo_fault":
            # memoize with an injected ENOSPC in the middle of writing the data object; the caller
            # sees an IOError (the runner swallows it) and the dictionary is unchanged
            from .faultfs import FaultFS

            _, ki, cls = op[:3]
            if self.kind != "fs":
                return None
            sym, arg = self.keys[ki]
            self.tick += 1
            self.faulted = True
            val = value_of(cls, self.tick, self.budget)
            mem = storeh.mk_memento(sym, arg, val, self.tick)
            mem.correlation_id = "cid_%06d" % self.tick
            fs = FaultFS([self.root])
            # the data object (default), or - "meta" - the memento object written after it
            fs.match = ("open-w", ".memento.json" if len(op) > 3 and op[3] == "meta" else os.path.join("c", ".versions"), "err_write")
            fs.install()
            try:
                try:
                    be.memoize(None, mem, val)
                    failed = False
                except OSError:
                    failed = True
            finally:
                fs.uninstall()
            if not failed:
                # nothing was written (an identical object already existed): an ordinary memoize
                self.mem[ki] = mem
                m.memoize(ki, self.tick, cls)
                if mem.content_key is not None:
                    self.written_blobs[ki] = (mem.content_key, self.blob_bytes(mem.content_key), False)
            return None
        if kind == "getm":
            ki = op[1]
            sym, arg = self.keys[ki]
            got = be.get_memento(storeh.rah(sym, arg))
            d = self.check_memento(got, ki)
            return ("lookup", "get_memento(%s/%s): %s" % (sym, arg, d)) if d else None
        if kind == "getms":  # batch lookup: one answer per position
            kis = op[1]
            got = be.get_mementos([storeh.rah(*self.keys[k]) for k in kis])
            if len(got) != len(kis):
                return ("lookup", "get_mementos(%s) returned %d answers" % (kis, len(got)))
            for k, g in zip(kis, got):
                d = self.check_memento(g, k)
                if d:
                    return ("lookup", "get_mementos(%s), position of %s/%s: %s" % (list(kis), *self.keys[k], d))
            return None
        if kind == "read":
            ki = op[1]
            if not m.live(ki):
                return None
            sym, arg = self.keys[ki]
            got_m = be.get_memento(storeh.rah(sym, arg))
            d = self.check_memento(got_m, ki)
            if d:
                return ("lookup", "get_memento(%s/%s): %s" % (sym, arg, d))
            got = be.read_result(got_m)
            if not self.same_value(got, ki):
                return ("stale-read", "read_result(%s/%s) returned %.40r, last written is write #%d"
                        % (sym, arg, got, m.d[ki]["tick"]))
            return None
        if kind == "ism":
            ki = op[1]
            sym, arg = self.keys[ki]
            got = bool(be.is_memoized(storeh.ref(sym), storeh.refargs(sym, arg).arg_hash))
            if got != m.live(ki):
                return ("is-memoized", "is_memoized(%s/%s) = %s, dictionary says %s" % (sym, arg, got, m.live(ki)))
            return None
        if kind == "isall":
            kis = op[1]
            got = bool(be.is_all_memoized([storeh.refargs(*self.keys[k]) for k in kis]))
            want = all(m.live(k) for k in kis)
            if got != want:
                return ("is-memoized", "is_all_memoized(%s) = %s, dictionary says %s" % (kis, got, want))
            return None
        if kind == "fc":
            ki = op[1]
            sym, arg = self.keys[ki]
            be.forget_call(storeh.rah(sym, arg))
            m.forget([ki])
            return None
        if kind == "ff":
            sym = op[1]
            be.forget_function(storeh.ref(sym))
            m.forget([i for i, (s, _) in enumerate(self.keys) if s == sym])
            return None
        if kind == "fe":
            be.forget_everything()
            m.forget(range(len(self.keys)))
            return None
        if kind == "lsf":
            return self.check_list_functions(be)
        if kind == "lsm":
            return self.check_list_mementos(be, op[1], op[2] if len(op) > 2 else None)
        if kind == "wmeta":
            _, ki, mkey, with_data = op
            sym, arg = self.keys[ki]
            if not m.live(ki):
                # a record for a call without a memento (a log flushed late, a call that was never memoized): it is kept
                # under the call like any other and goes when the call is forgotten
                if with_data:
                    return None
                self.tick += 1
                val = ("meta%06d" % self.tick).encode()
                be.write_metadata(storeh.rah(sym, arg), mkey, val)
                m.dm.setdefault(ki, {})[mkey] = (val, False, True)
                return None
            self.tick += 1
            val = ("meta%06d" % self.tick).encode()
            ck = None
            if with_data:
                ck = self.mem[ki].content_key
                if ck is None or self.kind != "fs":
                    with_data = False
                    ck = None
            be.write_metadata(storeh.rah(sym, arg), mkey, val, store_with_content_key=ck)
            m.d[ki]["meta"][mkey] = (val, bool(with_data), True)
            return None
        if kind == "rmeta":
            _, ki, mkey = op
            return self.check_read_metadata(be, ki, mkey)
        raise HarnessError("unknown op %r" % (op,))

    # -- C07: content addressing, dedup, immutability (filesystem layout as documented) ----------
    def blob_bytes(self, content_key):
        with self.be._data_source.input_versioned(content_key) as f:
            return f.read()

    def _referenced(self, uuid, name):
        """Is the object named by a link file or by the content key of a live memento?"""
        link = os.path.join(self.dpath, "c", name + ".link")
        if os.path.isfile(link):
            with open(link) as f:
                if os.path.basename(os.path.dirname(f.read())) == uuid:
                    return True
        for ki, (ck, _, _) in self.written_blobs.items():
            if self.model.live(ki) and ck.version == uuid and ck.key == "c/" + name:
                return True
        return False

    def integrity(self):
        """None or (clause, description): invariants over the WHOLE data store."""
        import hashlib

        if self.kind != "fs":
            return None
        cdir = os.path.join(self.dpath, "c")
        per_hash = {}
        vdir = os.path.join(cdir, ".versions")
        if os.path.isdir(vdir):
            for u in sorted(os.listdir(vdir)):
                if not os.path.isdir(os.path.join(vdir, u)):
                    continue  # (a stray file next to the version directories is not an object)
                for name in sorted(os.listdir(os.path.join(vdir, u))):
                    if ".meta." in name:
                        continue
                    with open(os.path.join(vdir, u, name), "rb") as f:
                        b = f.read()
                    if hashlib.sha256(b).hexdigest() != name:
                        if self.faulted and not self._referenced(u, name):
                            continue  # partial object left by a failed write that nothing points to
                        return ("content-hash", "object c/.versions/%s/%s does not hash to its key" % (u, name[:12]))
                    per_hash.setdefault(name, []).append(u)
        for h, us in per_hash.items():
            if len(us) > 1:
                return ("dedup", "%d stored objects for content key %s" % (len(us), h[:12]))
        if os.path.isdir(cdir):
            for name in sorted(os.listdir(cdir)):
                if not name.endswith(".link"):
                    continue
                with open(os.path.join(cdir, name)) as f:
                    target = f.read()
                h = name[:-5]
                if not os.path.isfile(target):
                    return ("link-dangling", "link c/%s names a missing object" % name[:17])
                with open(target, "rb") as f:
                    if hashlib.sha256(f.read()).hexdigest() != h:
                        return ("link-hash", "link c/%s names bytes that do not hash to it" % name[:17])
        # immutability: every live memento still reads exactly the bytes stored when it was created
        for ki, (ck, b0, overridden) in self.written_blobs.items():
            if not self.model.live(ki):
                continue
            try:
                b1 = self.blob_bytes(ck)
            except OSError as e:
                return ("immutable", "bytes of live memento %s/%s are gone: %r" % (*self.keys[ki], e))
            if b1 != b0:
                return ("immutable", "bytes under the content key of live memento %s/%s changed" % self.keys[ki])
            if not overridden and ck.key != "c/" + hashlib.sha256(b0).hexdigest():
                return ("content-key", "content key %s is not derived from the SHA-256 of the bytes" % (ck.key[:20],))
        return None

    # -- whole-state comparisons (used by ops and by the probe) -----------------------------------
    def check_list_functions(self, be):
        got = be.list_functions()
        names = sorted(f.qualified_name for f in got)
        want = sorted({storeh.qname(self.keys[k][0]) for k in self.model.d})
        meta_only = {storeh.qname(self.keys[k][0]) for k, mm in self.model.dm.items() if mm}
        if set(want) <= set(names) <= set(want) | meta_only:
            # a function for which nothing but metadata of calls without a memento is recorded has no live entry; whether
            # it is listed is not defined by the dictionary (the filesystem backend lists its directory)
            return None
        if self.faulted and set(want) <= set(names):
            # after an injected write error an empty function directory may remain: listing such a function (with no
            # mementos) is a residue of the fault, outside the dictionary behaviour this compares
            return None
        if names != want:
            return ("list-functions", "list_functions() = %s, live functions are %s" % (names, want))
        return None

    def check_list_mementos(self, be, sym, limit=None):
        got = be.list_mementos(storeh.ref(sym), limit) if limit is not None else be.list_mementos(storeh.ref(sym))
        got = list(got or [])
        live = {storeh.refargs(s, a).arg_hash: k for k, (s, a) in enumerate(self.keys) if s == sym and self.model.live(k)}
        hashes = [g.invocation_metadata.fn_reference_with_args.arg_hash for g in got]
        if limit is None:
            if sorted(hashes) != sorted(live):
                return ("list-mementos", "list_mementos(%s) has %d entries, %d are live" % (sym, len(hashes), len(live)))
        else:
            if len(hashes) != min(limit, len(live)) or len(set(hashes)) != len(hashes) or not set(hashes) <= set(live):
                return ("list-mementos", "list_mementos(%s, limit=%d) returned %d entries of %d live" % (sym, limit, len(hashes), len(live)))
        for g in got:
            d = self.check_memento(g, live[g.invocation_metadata.fn_reference_with_args.arg_hash])
            if d:
                return ("list-mementos", "list_mementos(%s): %s" % (sym, d))
        return None

    def check_read_metadata(self, be, ki, mkey):
        sym, arg = self.keys[ki]
        e = self.model.d.get(ki)
        ent = e["meta"].get(mkey) if e else self.model.dm.get(ki, {}).get(mkey)
        if ent is not None and not ent[2]:
            return None  # stored with a superseded data object: undefined in the model
        got = be.read_metadata(storeh.rah(sym, arg), mkey)
        want = ent[0] if ent else None
        if got != want:
            return ("metadata", "read_metadata(%s/%s, %s) = %r, dictionary says %r" % (sym, arg, mkey, got, want))
        return None

    def probe(self):
        """Compare the whole state with the model. Returns None or (clause, description)."""
        try:
            return self._probe()
        except HarnessError:
            raise
        except Exception as e:
            import traceback

            return ("probe-raised", "whole-state probe raised %r\n%s" % (e, traceback.format_exc(limit=6)))

    def _probe(self):
        view = self.fresh_view() if self.kind == "fs" else self.be
        for ki, (sym, arg) in enumerate(self.keys):
            got = view.get_memento(storeh.rah(sym, arg))
            d = self.check_memento(got, ki)
            if d:
                return ("probe-lookup", "fresh view, get_memento(%s/%s): %s" % (sym, arg, d))
            im = bool(view.is_memoized(storeh.ref(sym), storeh.refargs(sym, arg).arg_hash))
            if im != self.model.live(ki):
                return ("probe-is-memoized", "fresh view, is_memoized(%s/%s) = %s" % (sym, arg, im))
            if got is not None:
                val = view.read_result(got)
                if not self.same_value(val, ki):
                    return ("probe-read", "fresh view, read_result(%s/%s) = %.40r, last write is #%d" % (sym, arg, val, self.model.d[ki]["tick"]))
                for mkey in self.model.d[ki]["meta"]:
                    b = self.check_read_metadata(view, ki, mkey)
                    if b:
                        return ("probe-" + b[0], "fresh view, " + b[1])
            else:
                for mkey in ("log", "", "log:out"):
                    b = self.check_read_metadata(view, ki, mkey)
                    if b:
                        return ("probe-" + b[0], "fresh view, " + b[1])
        b = self.check_list_functions(view)
        if b:
            return ("probe-" + b[0], "fresh view, " + b[1])
        for sym in sorted({s for s, _ in self.keys}):
            b = self.check_list_mementos(view, sym)
            if b:
                return ("probe-" + b[0], "fresh view, " + b[1])
        # the cache must not hold anything superseded or forgotten
        c = getattr(self.be, "_memory_cache", None)
        if c is not None:
            rev = {storeh.qname(s) + "/" + storeh.refargs(s, a).arg_hash: k for k, (s, a) in enumerate(self.keys)}
            for ck, ent in list(c.cache.items()):
                ki = rev.get(ck)
                if ki is None or not self.model.live(ki):
                    return ("cache-ghost", "cache holds an entry for %s which is not live" % ck)
                if ent.memento.correlation_id != "cid_%06d" % self.model.d[ki]["tick"]:
                    return ("cache-stale", "cache holds memento %s for %s/%s, last write is #%d"
                            % (ent.memento.correlation_id, *self.keys[ki], self.model.d[ki]["tick"]))
                if ent.has_value and not self.same_value(ent.value, ki):
                    return ("cache-stale", "cache holds a superseded value for %s/%s" % self.keys[ki])
            if c.memory_usage != sum(e.obj_size for e in c.cache.values()):
                return ("cache-accounting", "cache usage %s != resident %s" % (c.memory_usage, sum(e.obj_size for e in c.cache.values())))
        return None

    # ------------------------------------------------------------------------------------------
    def canon(self):
        """Canonical form of the REAL state (+ model): uuids and write ticks replaced by ranks."""
        ticks = set()
        uuids = set()
        files = []
        if self.kind == "fs":
            for base, tag in ((self.dpath, "d"), (self.mpath, "m")):
                if not base or not os.path.isdir(base):
                    continue
                for dp, dn, fn in os.walk(base):
                    dn.sort()
                    rel = os.path.relpath(dp, base)
                    if not dn and not fn:
                        files.append((tag, rel.encode(), b"<emptydir>"))
                    for f in sorted(fn):
                        with open(os.path.join(dp, f), "rb") as fh:
                            b = fh.read()
                        if len(b) > 400:
                            b = b[:200] + b"..%d.." % len(b) + b[-64:]
                        files.append((tag, os.path.join(rel, f).encode(), b.replace(self.root.encode(), b"<root>")))
            blob = b"\0".join(x for f in files for x in f[1:])
            uuids.update(_UUID_RE.findall(blob))
            ticks.update(int(t) for t in _TICK_RE.findall(blob))
        else:
            be = self.be
            files = ("mem",
                     tuple(sorted((qn, tuple(sorted((h, mm.correlation_id) for h, mm in d.items()))) for qn, d in be.mementos.items())),
                     tuple(sorted((k, repr(v)[:40]) for k, v in be.result.items())),
                     tuple(sorted((k, tuple(sorted(v.items()))) for k, v in be.metadata.items())))
            ticks.update(int(t) for t in _TICK_RE.findall(repr(files).encode()))
        cache = ()
        c = getattr(self.be, "_memory_cache", None)
        if c is not None:
            cache = (tuple(c.lru_deque), tuple(sorted((k, e.obj_size, e.has_value, e.memento.correlation_id,
                                                        short(e.value) if e.has_value else None) for k, e in c.cache.items())),
                     c.memory_usage, tuple(sorted(getattr(c, "refs", {}).keys())))
            ticks.update(int(t) for t in _TICK_RE.findall(repr(cache).encode()))
        for e in self.model.d.values():
            ticks.add(e["tick"])
            for v in e["meta"].values():
                ticks.update(int(t) for t in re.findall(rb"meta(\d{6})", v[0]))
        tr = {t: i for i, t in enumerate(sorted(ticks))}
        ur = {u: i for i, u in enumerate(sorted(uuids))}

        def norm(b):
            if isinstance(b, str):
                b = b.encode()
            b = _UUID_RE.sub(lambda mo: b"U%d" % ur[mo.group(0)], b)
            b = _TICK_RE.sub(lambda mo: b"T%d" % tr[int(mo.group(1))], b)
            b = re.sub(rb"meta(\d{6})", lambda mo: b"M%d" % tr.get(int(mo.group(1)), -1), b)
            return b

        real = norm(repr(files)) + norm(repr(cache))
        model = norm(repr(self.model.canon(lambda t: "T%d" % tr[t])))
        held = tuple(sorted(self.mem))
        from .core import object_state

        # (every scalar attribute of the backend objects, known to this check or not: histories are merged only when these agree too)
        hidden = object_state(self.be, roots=(getattr(self, "alt_root", None), self.root))
        return (real, model, held, tuple(sorted(self.kept)), getattr(self, "spell", 0), hidden)


# ---------------------------------------------------------------------------------------------
# BFS plumbing shared by C05 / C07
# ---------------------------------------------------------------------------------------------

_roots = {}


def scratch_store(tag="st"):
    from .core import scratch_dir

    pid = os.getpid()
    if (pid, tag) not in _roots:
        _roots[(pid, tag)] = os.path.join(scratch_dir(tag), "store")
    return _roots[(pid, tag)]


def alphabet(profile, keys, classes, small=False):
    ops = []
    k2 = min(2, len(keys) - 1)  # a second call (of another function where there is one)
    if profile == "c07p":
        # partitions written under ONE key override by two calls, read back in between and afterwards (each memento keeps
        # reading the index and the value objects stored when it was created)
        return [("memo", 0, "P", OVK), ("memo", k2, "P", OVK), ("memo", k2, "s", OVK), ("memo", 0, "P", None),
                ("read", 0), ("read", k2), ("fc", 0), ("reopen",)]
    for ki in range(len(keys)):
        for c in classes:
            ops.append(("memo", ki, c, None))
        ops.append(("getm", ki))
        ops.append(("read", ki))
        ops.append(("ism", ki))
        ops.append(("fc", ki))
    if not small:
        ops.append(("memo", 0, "s", OVK))
        ops.append(("memo", k2, "t", OVK))
        ops.append(("memo", 0, "N", OVK))
        if profile.startswith("c07"):
            ops.append(("memo", k2, "D", OVK))
            ops.append(("memo", 0, "P", OVK))
            ops.append(("reopen",))  # the same store under another spelling of its path (through a symbolic link)
            ops.append(("memo_fault", 0, "D"))
            ops.append(("memo_fault", k2, "s"))
            ops.append(("memo_fault", k2, "D", "meta"))  # the data object is written (or re-used), then the memento write fails
            ops.append(("torn_link_forget", 0))
            # the same two override writes by calls whose bodies seed the process-wide PRNG before returning
            ops.append(("memo", 0, "s", OVK, "seeded"))
            ops.append(("memo", k2, "t", OVK, "seeded"))
        ops.append(("wmeta", 0, "log", False))
        ops.append(("wmeta", 0, "log", True))
        ops.append(("wmeta", k2, "log", False))
        ops.append(("rmeta", 0, "log"))
        # a metadata key with characters that are escaped in file names
        ops.append(("wmeta", 0, "log:out", False))
        ops.append(("rmeta", 0, "log:out"))
        # the empty string as metadata key (stored with the data object, and on its own)
        ops.append(("wmeta", 0, "", True))
        ops.append(("wmeta", k2, "", False))
        ops.append(("rmeta", 0, ""))
        ops.append(("isall", (0, k2)))
    if len(keys) >= 2:
        a, b = 0, 1 % len(keys)
        ops.append(("getms", (a, b)))
        ops.append(("getms", (b, a)))
        if len(keys) >= 3:
            ops.append(("getms", (2, 0, 1)))
    for sym in sorted({s for s, _ in keys}):
        ops.append(("ff", sym))
        if not profile.startswith("c07"):
            ops.append(("lsm", sym))
    if not profile.startswith("c07"):
        ops.append(("lsm", keys[0][0], 1))
        ops.append(("lsf",))
    ops.append(("fe",))
    return ops


def build(cfg, hist):
    profile, backend, keys, classes, small, depth, seed = cfg
    run = StoreRun(backend, scratch_store(profile), keys)
    for op in hist:
        run.step(op)
    return run


_BK = {"mem": "memory", "fs": "fs", "fs+m": "fs", "fsc4": "fs+cache", "fsc4+m": "fs+cache", "fsc64": "fs+cache"}


def signature(cfg, op, clause, hist):
    o = op[0]
    if o == "memo":
        o += ":" + op[2] + ("+override" if op[3] else "")
    if o == "memo_fault":
        o += ":" + op[2] + ("+meta" if len(op) > 3 else "")
    prev = "init"
    if hist:
        prev = hist[-1][0] + ((":" + str(hist[-1][2]) + ("+override" if hist[-1][3] else "")) if hist[-1][0] == "memo" else "")
    return "%s|%s|after:%s|%s" % (_BK[cfg[1]], o, prev, clause)


def expand(cfg, hist):
    profile, backend, keys, classes, small, depth, seed = cfg
    out = []

    def viol(op, clause, what, h, probe=False):
        sig = signature(cfg, op, clause, h[:-1] if probe else h)
        full = list(h) if probe else list(h) + [op]
        out.append((op if not probe else ("probe",), None,
                    (sig, what + "\nbackend=%s history: %s" % (backend, full),
                     {"profile": profile, "backend": backend, "keys": keys, "history": [list(o) for o in full], "probe": probe}), None))

    run = build(cfg, hist)
    bad = run.probe()
    if bad:
        viol(hist[-1] if hist else ("init",), bad[0], bad[1], hist, probe=True)
        return out
    if len(hist) >= depth:
        return out
    ops = alphabet(profile, keys, classes, small)
    if seed:
        import random

        random.Random(seed).shuffle(ops)
    for op in ops:
        run = build(cfg, hist)
        bad = run.step(op)
        if not bad and profile.startswith("c07"):
            bad = run.integrity()
        if bad:
            viol(op, bad[0], bad[1], hist)
            continue
        k = run.canon()
        from . import bfs as vbfs

        # "nm" profiles keep every history apart (no state merging): hidden state that a change adds
        # to the library (and that the canonical form cannot know about) stays observable
        dg = vbfs.digest(k) if not profile.endswith("nm") else vbfs.digest((hist, op))
        out.append((op, dg, None, "%s:%s" % (backend, vbfs.digest(k[0])[:10])))
    return out


def run_configs(ctx, cfgs):
    from . import bfs as vbfs

    per = []
    for cfg in cfgs:
        init = vbfs.digest(build(cfg, ()).canon())
        label = "%s keys=%d classes=%s depth=%d" % (cfg[1], len(cfg[2]), "".join(cfg[3]), cfg[5])
        r = vbfs.explore(expand, cfg, init, max_depth=cfg[5] + 1, label=label)
        r["caps"] = [c for c in r["caps"] if "depth cap" not in c]  # the depth is the stated bound
        ctx.merge([r])
        per.append({"config": label, "states": r["states"], "transitions": r["transitions"],
                    "frontier_per_level": r["per_level"]})
    ctx.extra["configs"] = per
    ctx.extra["bound"] = "operation histories to the depth given per config; every state at that depth is still probed"
    ctx.count(evaluations=ctx.transitions)


def replay_history(art):
    a = art["artefact"]
    keys = [tuple(k) for k in a["keys"]]
    hist = [tuple(tuple(x) if isinstance(x, list) else x for x in o) for o in a["history"]]
    run = StoreRun(a["backend"], scratch_store("replay"), keys)
    bad = None
    for op in hist:
        bad = run.step(op)
        if not bad and str(a.get("profile", "")).startswith("c07"):
            bad = run.integrity()
        print(op, "->", bad)
    if not bad:
        bad = run.probe()
        print("probe ->", bad)
    print("REPLAY property=%s result=%s" % (art["property"], bad))
    return 1 if bad else 0

#!/bin/bash
# tools/runmut.sh <patch.diff> <ID> [tier]   -- run one check against a scratch copy of /repo with
# the patch applied (worktree under /tmp, removed afterwards). Evidence/violations go to scratch.
set -u
PATCH="$(readlink -f "$1")"; ID="$2"; TIER="${3:-quick}"
HERE="$(cd "$(dirname "${BASH_SOURCE[0]}")/.." && pwd)"
WT="$(mktemp -d /tmp/vfmut_XXXXXX)"; rmdir "$WT"
git -C /repo worktree add --detach "$WT" HEAD -q || exit 3
trap 'git -C /repo worktree remove --force "$WT" >/dev/null 2>&1; rm -rf "$WT" "$OUT"' EXIT
OUT="$(mktemp -d /tmp/vfmutout_XXXXXX)"
git -C "$WT" apply "$PATCH" || { echo "PATCH-DOES-NOT-APPLY"; exit 3; }
cd "$HERE"
VF_REPO="$WT" VF_EVIDENCE_DIR="$OUT/ev" VF_VIOLATIONS_DIR="$OUT/viol" timeout "${VF_MUT_TIMEOUT:-900}" ./vfcheck "$ID" "$TIER" > "$OUT/log" 2>&1
RC=$?
grep -E "^(VIOLATION|KNOWN-FINDING|HARNESS-ERROR)" "$OUT/log" | head -${VF_MUT_LINES:-6}
grep -A2 "^VIOLATION" "$OUT/log" | grep -E "^  " | head -${VF_MUT_LINES:-6}
echo "exit=$RC"
exit $RC

"""Result values for the transparency check (C02): one memento function, the argument names the
value to produce; `plain(name)` is the un-memoized reference."""
import datetime
import sys

import numpy as np
import pandas as pd

import twosigma.memento as m
from twosigma.memento.exception import NonMemoizedException
from twosigma.memento.partition import InMemoryPartition
from twosigma.memento.result import KeyOverrideResult
from twosigma.memento.storage_filesystem import OnDiskPartition

from . import c02fx_b

UTC = datetime.timezone.utc


class Custom1(Exception):
    pass


class Custom2(Exception):
    def __init__(self, a, b):
        super().__init__("%s/%s" % (a, b))


class Quota(Exception):
    """Keeps one of its fields in an attribute called `message`; its text is made of several fields."""

    def __init__(self, message, limit=5):
        super().__init__(message, limit)
        self.message = message
        self.limit = limit

    def __str__(self):
        return "%s [limit=%s]" % (self.message, self.limit)


class Outer:
    class Nested(Exception):
        pass


class Transient(NonMemoizedException):
    pass


def _raise_local():
    class LocalErr(Exception):
        pass

    raise LocalErr("local failure")


def _odp(d):
    p = OnDiskPartition()
    for k, v in d.items():
        p[k] = v
    return p


ATOMS = {
    "none": lambda: None, "true": lambda: True, "false": lambda: False, "int0": lambda: 0, "int1": lambda: 1,
    "bigint": lambda: 2 ** 70, "float": lambda: 0.5, "negzero": lambda: -0.0, "nan": lambda: float("nan"), "inf": lambda: float("inf"),
    "str": lambda: "text", "empty-str": lambda: "", "nonascii": lambda: "é€", "str-surrogate": lambda: "name-\udcff-\ud800", "bytes": lambda: b"\x00\xff", "empty-bytes": lambda: b"",
    "date": lambda: datetime.date(2020, 2, 29), "dt-naive": lambda: datetime.datetime(2020, 2, 29, 1, 2, 3, 4),
    "dt-aware": lambda: datetime.datetime(2020, 2, 29, 1, 2, 3, tzinfo=UTC), "pd-timestamp": lambda: pd.Timestamp("2020-02-29 01:02:03"),
    "empty-list": lambda: [], "empty-dict": lambda: {},
}
for _dt in ("bool", "int8", "int16", "int32", "int64", "float32", "float64"):
    ATOMS["arr-%s-empty" % _dt] = (lambda d=_dt: np.array([], dtype=d))
    ATOMS["arr-%s-1" % _dt] = (lambda d=_dt: np.array([1], dtype=d))
ATOMS["arr-float64-nan"] = lambda: np.array([1.0, float("nan")])
ATOMS.update({
    "index": lambda: pd.Index([1, 2, 3]), "index-empty": lambda: pd.Index([]), "index-str": lambda: pd.Index(["a", "b"]),
    "series": lambda: pd.Series([1.5, 2.5], index=["a", "b"]), "series-empty": lambda: pd.Series([], dtype="float64"),
    "series-object": lambda: pd.Series(["x", None, 3]),
    "frame": lambda: pd.DataFrame({"a": [1, 2], "b": ["x", "y"]}), "frame-empty": lambda: pd.DataFrame(),
    "frame-nan": lambda: pd.DataFrame({"a": [1.0, float("nan")]}),
    "partition-mem": lambda: InMemoryPartition({"a": 1, "b": "x", "c": [1, 2]}),
    "partition-mem-frame": lambda: InMemoryPartition({"f": pd.DataFrame({"a": [1]}), "n": None}),
    "partition-empty": lambda: InMemoryPartition({}),
    "partition-disk": lambda: _odp({"a": 1, "b": "x"}),
})
EXCS = {
    "exc-builtin": lambda: (_ for _ in ()).throw(ValueError("bad value")),
    "exc-custom1": lambda: (_ for _ in ()).throw(Custom1("custom one")),
    "exc-custom2": lambda: (_ for _ in ()).throw(Custom2("x", "y")),
    "exc-message-attr": lambda: (_ for _ in ()).throw(Quota("over quota")),
    "exc-nested": lambda: (_ for _ in ()).throw(Outer.Nested("nested one")),
    "exc-local": _raise_local,
    "exc-keyerror": lambda: (_ for _ in ()).throw(KeyError("k")),
    "exc-nonascii": lambda: (_ for _ in ()).throw(ValueError("é€ not found")),
    "exc-surrogate": lambda: (_ for _ in ()).throw(ValueError("cannot read file name-\udcff")),  # as os.fsdecode gives for a non-UTF-8 name
    "exc-samename": lambda: (_ for _ in ()).throw(c02fx_b.Custom1("custom one of the other module")),
    "exc-transient": lambda: (_ for _ in ()).throw(Transient("try later")),
}


def build(name):
    """Value named `name` (containers: 'list:<n>', 'dict:<n>', 'list:list:<n>' ...)."""
    if name.startswith("list:"):
        return [build(name[5:]), 7]
    if name.startswith("dict:"):
        return {"k": build(name[5:]), "j": "s"}
    if name in EXCS:
        return EXCS[name]()
    if name == "__neighbour":
        return "neighbour"
    return ATOMS[name]()


def plain(name):
    return build(name)


@m.memento_function(cluster="vfc", version="1")
def val(name):
    sys.audit("vf.body", "val", name)
    return build(name)


@m.memento_function(cluster="vfc", version="1")
def twin(name):
    """Another function producing byte-identical results (shares the stored object)."""
    sys.audit("vf.body", "twin", name)
    return build(name)


@m.memento_function(cluster="vfc", version="1")
def kov(name):
    """Same values, stored under ONE key override shared by all calls of this function."""
    sys.audit("vf.body", "kov", name)
    return KeyOverrideResult(build(name), "ko/sha#red/x")

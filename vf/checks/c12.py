"""C12 - whatever was stored stays listable and readable as names and code evolve.

A: every version string over the alphabet up to a length x clusters x modules x function names:
   parse(build(parts)) == parts (pure, exhaustive).
B: for a sub-alphabet of versions, a real memento function with that explicit version in the
   default and in a named cluster, on memory and filesystem backends: call, hit, memento(),
   list_mementos(), list_memoized_functions().
C: every evolution history (length <= 2) of a caller/callee pair with the caller's version
   pinned, delivered cross-process: the stored entry is served, metadata reads never raise,
   references to vanished versions are external.
"""
import itertools
import os

from ..core import scratch_dir, rm, pmap, HarnessError
from .. import audit, farm, progen
from ..progen import mkfunc, call

SIGMA = ["a", "1", ".", "_", "-", "+", "=", ":", "#", "@"]


def part_a(args):
    from twosigma.memento.reference import FunctionReference

    chunk = args
    out = {"evaluations": 0, "states": 0, "transitions": 0, "traces": 0, "violations": [], "outcomes": []}
    for version in chunk:
        for cluster, module, function in itertools.product((None, "c", "c.d", "c:d"), ("m", "p.m"), ("f", "C.f")):
            qn = (cluster + "::" if cluster else "") + module + ":" + function + "#" + version
            out["evaluations"] += 1
            out["transitions"] += 1
            out["traces"] += 1
            try:
                got = FunctionReference.parse_qualified_name(qn)
            except Exception as e:
                got = {"error": repr(e)}
            want = {"cluster": cluster, "module": module, "function": function, "version": version}
            if got != want:
                cls = "".join(sorted({c for c in version if c in ":#"})) or "plain"
                wrong = [k for k in want if got.get(k) != want[k]]
                out["violations"].append(("parse|version-contains:%s|cluster-colon:%s|wrong:%s" % (cls, bool(cluster and ":" in cluster), "+".join(wrong)),
                                          "parse_qualified_name(%r) = %r, expected %r" % (qn, got, want), {"part": "A", "qn": qn}))
        out["states"] += 1
    out["outcomes"] = ["A:%d" % len(chunk)]
    return out


def versions(maxlen):
    out = [""]  # the empty explicit version is a version too (name "mod:fn#"), distinct from "no version"
    for n in range(1, maxlen + 1):
        for t in itertools.product(SIGMA, repeat=n):
            out.append("".join(t))
    return out


# ---------------------------------------------------------------------------------------------
# part B
# ---------------------------------------------------------------------------------------------

def _b_child(root, vs, backend):
    import importlib
    import sys

    import twosigma.memento as m
    from twosigma.memento.storage_filesystem import FilesystemStorageBackend
    from twosigma.memento.storage_memory import MemoryStorageBackend

    audit.install()
    src = ["import sys", "import twosigma.memento as m", ""]
    for i, v in enumerate(vs):
        for cl in (None, "mclu"):
            src.append("@m.memento_function(%sversion=%r)" % ("cluster='mclu', " if cl else "", v))
            src.append("def fv_%d_%s(x):" % (i, "c" if cl else "d"))
            src.append("    sys.audit('vf.body', 'fv_%d', x)" % i)
            src.append("    return ['v', %r, x]" % v)
            src.append("")
    # package and cluster names start with "m" (the metadata path prefix is "m/")
    os.makedirs(os.path.join(root, "mvfb"))
    open(os.path.join(root, "mvfb", "__init__.py"), "w").close()
    open(os.path.join(root, "mvfb", "a.py"), "w").write("\n".join(src))
    res = []
    sys.path.insert(0, root)
    a = importlib.import_module("mvfb.a")
    for i, v in enumerate(vs):
        for cl in (None, "mclu"):
            sroot = os.path.join(root, "s_%d_%s" % (i, cl))
            if backend == "fs":
                st = lambda p: FilesystemStorageBackend(path=p)  # noqa
                dflt = None
            else:
                st = lambda p: MemoryStorageBackend()  # noqa
            if cl:
                env = m.Environment(name="e", base_dir=sroot, repos=[m.ConfigurationRepository(name="r", clusters={"mclu": m.FunctionCluster(name="mclu", storage=st(os.path.join(sroot, "c")))})])
            else:
                env = m.Environment(name="e", base_dir=sroot)
                if backend == "mem":
                    env.default_cluster = m.FunctionCluster(name="default", storage=MemoryStorageBackend())
            m.Environment.set(env)
            f = getattr(a, "fv_%d_%s" % (i, "c" if cl else "d"))
            obs = {}
            try:
                audit.bodies_reset()
                r1 = f(1)
                obs["first"] = (r1, len(audit.bodies()))
                audit.bodies_reset()
                r2 = f(1)
                obs["second"] = (r2, len(audit.bodies()))
                obs["memento"] = f.memento(1) is not None
                lm = f.list_mementos()
                obs["list_mementos"] = len(lm or [])
                lf = m.list_memoized_functions(cl)
                obs["list_functions"] = sorted(x.qualified_name for x in lf)
                obs["qn"] = f.fn_reference().qualified_name
                obs["qn_expected"] = ("mclu::" if cl else "") + "mvfb.a:fv_%d_%s#%s" % (i, "c" if cl else "d", v)
            except Exception as e:
                import traceback

                obs["exc"] = "%s: %s | %s" % (type(e).__name__, str(e)[:100], traceback.format_exc(limit=3)[-300:])
            res.append((v, cl, obs))
    return res


def part_b(args):
    vs, backend = args
    top = scratch_dir("c12b")
    out = {"evaluations": 0, "states": 0, "transitions": 0, "traces": 0, "violations": [], "outcomes": []}
    try:
        res = farm.fork_call(_b_child, top, vs, backend)
    finally:
        rm(top)
    for v, cl, obs in res:
        out["evaluations"] += 1
        out["states"] += 1
        out["transitions"] += 5
        out["traces"] += 1
        bad = None
        if "exc" in obs:
            bad = ("raised", obs["exc"])
        elif obs["first"] != (["v", v, 1], 1):
            bad = ("first-call", "first call gave %r" % (obs["first"],))
        elif obs["second"] != (["v", v, 1], 0):
            bad = ("not-found-again", "second call gave %r (value, body runs)" % (obs["second"],))
        elif not obs["memento"]:
            bad = ("memento-query", "memento() found nothing")
        elif obs["list_mementos"] != 1:
            bad = ("list-mementos", "list_mementos() returned %d entries" % obs["list_mementos"])
        elif obs["qn"] != obs["qn_expected"]:
            bad = ("qualified-name", "the function is named %r, cluster / module / function / version give %r" % (obs["qn"], obs["qn_expected"]))
        elif obs["list_functions"] != [obs["qn"]]:
            bad = ("list-functions", "list_memoized_functions() = %r, expected [%r]" % (obs["list_functions"], obs["qn"]))
        if bad:
            cls = "".join(sorted({c for c in v if not c.isalnum()})) or "plain"
            out["violations"].append(("store|%s|%s|version-chars:%s|%s" % (backend, "named" if cl else "default", cls, bad[0]),
                                      "version %r, cluster %r, backend %s: %s" % (v, cl, backend, bad[1]), {"part": "B", "version": v, "backend": backend}))
        out["outcomes"].append("B:%s:%s:%s" % (backend, cl, v))
    return out


# ---------------------------------------------------------------------------------------------
# part C
# ---------------------------------------------------------------------------------------------

STEPS = ["edit", "bump", "remove", "rename", "recluster", "plain", "restore"]
STEPS_MODB = ["edit", "bump", "remove", "break-import", "restore"]  # callee in a second module


# explicit versions of the callee: ordinary, empty, containing the cluster separator and the version separator
VERS = {"explicit": "d1", "explicit-empty": "", "explicit-colons": "1::2:#3"}


def base_prog(callee_kind, cluster, argpass=False):
    if argpass == "ppartial":
        # the caller invokes the callee through a positional partial application (the stored invocation then carries
        # partial arguments and depends on the recorded parameter names once the callee is gone)
        R = mkfunc("R", kind="explicit", version="1", calls=[call("D", "ppartial")], rich=False, cluster=cluster)
        D = mkfunc("D", kind="explicit" if callee_kind.startswith("explicit") else callee_kind, version=VERS.get(callee_kind), rich=False, cluster=cluster)
        return {"funcs": [R, D], "vars": {}}
    if argpass == "modb":
        # the callee lives in a second module b of the package (referenced as b.D)
        R = mkfunc("R", kind="explicit", version="1", calls=[call("D", "modattr")], rich=False, cluster=cluster)
        D = mkfunc("D", kind="explicit" if callee_kind.startswith("explicit") else callee_kind, module="b",
                   version=VERS.get(callee_kind), rich=False, cluster=cluster)
        return {"funcs": [R, D], "vars": {}}
    R = mkfunc("R", kind="explicit", version="1", calls=[call("D")], rich=False, cluster=cluster)
    # "explicit-empty": the callee's explicit version is the empty string
    D = mkfunc("D", kind="explicit" if callee_kind.startswith("explicit") else callee_kind,
               version=VERS.get(callee_kind), rich=False, cluster=cluster)
    if argpass == "wrapped-root":
        # the caller carries a plain functools.wraps decorator on top of the memento decorator: the module attribute R is
        # the wrapper, the memento function is R.__wrapped__
        R["wrapped_def"] = True
        return {"funcs": [R, D], "vars": {}}
    if argpass:
        # the evolving function is handed to a middle function as an ARGUMENT: stored argument lists name its version
        R["calls"] = [{"target": "M", "form": "passfn", "fn": "D", "arg": 1}]
        M = mkfunc("M", kind="explicit", version="m1", calls=[call("D", "arg")], rich=False, cluster=cluster)
        return {"funcs": [R, M, D], "vars": {}}
    return {"funcs": [R, D], "vars": {}}


def apply_step(P, step, base):
    import copy

    Q = copy.deepcopy(P)
    fm = {f["name"]: f for f in Q["funcs"]}
    R = fm["R"]
    argpass = "fn" in R["calls"][0]  # (the callee is handed on as an argument)
    tgt = R["calls"][0]["fn"] if argpass else R["calls"][0]["target"]
    D = fm.get(tgt)
    if step == "restore":
        return copy.deepcopy(base)
    if step == "break-import":
        if Q.get("b_broken") or not any(f["module"] == "b" for f in Q["funcs"]):
            return None
        Q["b_broken"] = True
        return Q
    if D is None:
        return None
    if step == "edit":
        D["lit"] += 1
        if D["kind"] == "explicit":
            return None
    elif step == "bump":
        if D["kind"] != "explicit":
            return None
        D["version"] += "x"
    elif step == "remove":
        Q["funcs"] = [f for f in Q["funcs"] if f["name"] != tgt]
    elif step == "rename":
        D["name"] = tgt + "n"
        if argpass:
            R["calls"][0]["fn"] = tgt + "n"
        else:
            R["calls"][0]["target"] = tgt + "n"
    elif step == "recluster":
        if D["kind"] == "plain":
            return None
        D["cluster"] = "other" if D.get("cluster") != "other" else None
    elif step == "plain":
        if D["kind"] == "plain":
            return None
        D["kind"] = "plain"
    return Q


def _c_child(root, store, cluster, first, list_first=False):
    import importlib
    import sys

    import twosigma.memento as m

    audit.install()
    farm.set_env(store, ("vfc", "other", "vf"))
    sys.path.insert(0, root)
    a = importlib.import_module("vfp.a")
    return _observe(a, m, cluster, list_first)


def _listing(m, cl):
    """(qualified name, number of mementos reachable through the listed reference) per listed function"""
    storage = m.Environment.get().get_cluster(cluster_name=cl).storage
    return sorted((ref.qualified_name, len(storage.list_mementos(ref))) for ref in m.list_memoized_functions(cl))


def _listing_ext(m, cl):
    """(qualified name, is the listed reference an external stub, number of mementos reachable through it)"""
    storage = m.Environment.get().get_cluster(cluster_name=cl).storage
    return sorted([ref.qualified_name, bool(ref.external), len(storage.list_mementos(ref))] for ref in m.list_memoized_functions(cl))


def _c_bare_child(root, store, cluster):
    """A process that reads the store without having imported the program (its modules are importable)."""
    import sys

    import twosigma.memento as m

    farm.set_env(store, ("vfc", "other", "vf"))
    sys.path.insert(0, root)
    try:
        return _listing_ext(m, cluster) + _listing_ext(m, "other")
    except Exception as e:
        return "EXC:%s:%s" % (type(e).__name__, str(e)[:100])


def _observe(a, m, cluster, list_first=False):
    obs = {}
    if list_first:
        # the store is listed before anything is read (names are then first resolved without the recorded parameter names)
        try:
            obs["pre_listed"] = [list(x) for x in _listing(m, cluster) + _listing(m, "other")]
        except Exception as e:
            obs["pre_listed"] = "EXC:%s:%s" % (type(e).__name__, str(e)[:100])
    audit.bodies_reset()
    try:
        obs["value"] = farm.jsonable(a.R(1))
    except Exception as e:
        obs["value"] = "EXC:%s:%s" % (type(e).__name__, str(e)[:100])
    obs["bodies"] = [b[0] for b in audit.bodies()]
    Rf = a.R if hasattr(a.R, "list_mementos") else a.R.__wrapped__  # (the memento function behind a plain decorator)
    for name, fn in (("memento", lambda: Rf.memento(1)), ("list_mementos", lambda: Rf.list_mementos()),
                     ("list_functions", lambda: m.list_memoized_functions(cluster)),
                     ("list_functions_other", lambda: m.list_memoized_functions("other"))):
        try:
            r = fn()
            obs[name] = "ok"
            if name == "memento":
                if r is None:
                    obs[name] = "none"
                else:
                    refs = [(i.fn_reference.qualified_name, i.fn_reference.external) for i in r.invocation_metadata.invocations]
                    refs += [(d.qualified_name, d.external) for d in r.function_dependencies]
                    cur = {}
                    import sys as _sys

                    for mod_, n in [(a, n) for n in dir(a)] + [(_sys.modules["vfp.b"], n) for n in dir(_sys.modules.get("vfp.b", None) or object())
                                                                if "vfp.b" in _sys.modules]:
                        o = getattr(mod_, n, None)
                        if hasattr(o, "fn_reference") and hasattr(o, "qualified_name_without_version"):
                            try:
                                cur[o.fn_reference().qualified_name] = True
                            except Exception:
                                pass
                    obs["refs"] = sorted(set(refs))
                    obs["current"] = sorted(cur)
                    try:
                        obs["inv_args"] = [(i.fn_reference.qualified_name.split("::")[-1], i.arg_hash, sorted((k, repr(v)[:40]) for k, v in i.effective_kwargs.items()
                                                                                                     if not hasattr(v, "fn_reference")))
                                           for i in r.invocation_metadata.invocations]
                    except Exception as e:
                        obs["inv_args"] = "EXC:%s:%s" % (type(e).__name__, str(e)[:80])
                    # through the unbound stub of a vanished version (and through a modifier clone of it) the stored
                    # entries of that version are still reachable
                    stubs = []
                    for i in r.invocation_metadata.invocations:
                        if i.fn_reference.external:
                            stub = i.fn_reference.memento_fn
                            try:
                                stubs.append((i.fn_reference.qualified_name, len(stub.list_mementos()), len(stub.force_local().list_mementos()),
                                              stub.fn_reference().qualified_name, stub.force_local().fn_reference().qualified_name))
                            except Exception as e:
                                stubs.append((i.fn_reference.qualified_name, "EXC:%s:%s" % (type(e).__name__, str(e)[:80])))
                    obs["stubs"] = stubs
        except Exception as e:
            obs[name] = "EXC:%s:%s" % (type(e).__name__, str(e)[:100])
    try:
        obs["listed"] = [list(x) for x in _listing(m, cluster) + _listing(m, "other")]
    except Exception as e:
        obs["listed"] = "EXC:%s:%s" % (type(e).__name__, str(e)[:100])
    try:
        obs["listed_ext"] = _listing_ext(m, cluster) + _listing_ext(m, "other")
    except Exception as e:
        obs["listed_ext"] = "EXC:%s:%s" % (type(e).__name__, str(e)[:100])
    return obs


def _c_inproc_child(top, store, cluster, progs, list_first=False):
    """One process: load edition 0, observe, then apply every later edition in place and observe."""
    import importlib
    import sys

    import twosigma.memento as m

    audit.install()
    farm.set_env(store, ("vfc", "other", "vf"))
    root = os.path.join(top, "ip")
    progen.write_pkg(progs[0], root)
    sys.path.insert(0, root)
    a = importlib.import_module("vfp.a")
    out = [_observe(a, m, cluster, list_first)]
    for k in range(1, len(progs)):
        p0, p1 = progs[k - 1], progs[k]
        n0 = {f["name"] for f in p0["funcs"]}
        n1 = {f["name"] for f in p1["funcs"]}
        for gone in n0 - n1:
            if hasattr(a, gone):
                delattr(a, gone)
        farm.apply_delta(p0, p1, {"a": a, "b": None}, root, False, "reexec")
        out.append(_observe(a, m, cluster, list_first))
    return out


def part_c(args):
    callee_kind, cluster, steps, mode, argpass = args
    if mode.startswith("inproc"):
        return part_c_inproc(args)
    lf = mode.endswith("-lf")
    top = scratch_dir("c12c")
    out = {"evaluations": 1, "states": 1, "transitions": len(steps), "traces": 1, "violations": [], "outcomes": []}
    try:
        base = base_prog(callee_kind, cluster, argpass)
        P = base
        store = os.path.join(top, "store")
        progen.write_pkg(P, os.path.join(top, "e0"))
        o0 = farm.fork_call(_c_child, os.path.join(top, "e0"), store, cluster, True, lf)
        want = o0["value"]
        if isinstance(want, str) and want.startswith("EXC") or o0["bodies"] != (["R", "M", "D"] if argpass is True else ["R", "D"]):
            # (never on the unchanged tree: the very first run of the pair, before any evolution step)
            out["violations"].append(("evolve|%s|callee:%s|step:none|first-run-wrong" % (_cl(cluster), callee_kind),
                                      "the first run of the caller/callee pair gave %r with bodies %s" % (want, o0["bodies"]),
                                      {"part": "C", "callee": callee_kind, "cluster": cluster, "steps": [], "argpass": argpass}))
            return out
        prev = o0
        for k, st in enumerate(steps):
            P = apply_step(P, st, base)
            if P is None:
                out["evaluations"] = 0
                return out
            root = os.path.join(top, "e%d" % (k + 1))
            progen.write_pkg(P, root)
            o = farm.fork_call(_c_child, root, store, cluster, False, lf)
            bad = judge_c(o, want, prev, o0, "recluster" in steps[:k + 1])
            if bad is None and not P.get("b_broken"):
                # a process that has not imported the program sees the same store: same names, same stubs, same entries
                bare = farm.fork_call(_c_bare_child, root, store, cluster)
                if bare != o["listed_ext"]:
                    bad = ("listing-depends-on-imports", "a process that has not imported the program lists %s, the process that has lists %s (name, external stub, entries)"
                           % (bare, o["listed_ext"]))
            prev = o
            if bad:
                sig = "evolve|%s|callee:%s%s|step:%s|%s%s" % (_cl(cluster), callee_kind, VARIANT.get(argpass, ""), st, bad[0], "|listed-first" if lf else "")
                out["violations"].append((sig, bad[1] + "\ncallee kind=%s cluster=%s passed-as-argument=%s history=%s" % (callee_kind, cluster, argpass, list(steps[:k + 1])),
                                          {"part": "C", "callee": callee_kind, "cluster": cluster, "steps": list(steps[:k + 1]), "argpass": argpass, "mode": mode}))
                break
        out["outcomes"].append("C:%s:%s:%s:%s" % (callee_kind, cluster, steps, argpass))
    except farm.ChildFailed as e:
        raise HarnessError("part C child failed %s: %s" % (args, e))
    finally:
        rm(top)
    return out


VARIANT = {True: "+as-argument", "modb": "+in-second-module", "ppartial": "+through-positional-partial", "wrapped-root": "+caller-behind-plain-decorator"}


def _cl(cluster):
    return "default" if not cluster else ("named" if cluster == "vfc" else "named-prefix-of-module")


def judge_c(o, want, prev, first, moved=False):
    if o["value"] != want:
        return ("not-served", "caller() gave %r, stored result is %r" % (o["value"], want))
    if o["bodies"]:
        return ("recomputed", "caller() ran bodies %s although its own version is current" % o["bodies"])
    if isinstance(o.get("pre_listed"), str):
        return ("listing-raised", "listing the functions and their mementos (before anything was read) raised %s" % o["pre_listed"][4:])
    for name in ("memento", "list_mementos", "list_functions", "list_functions_other"):
        if o[name].startswith("EXC"):
            return ("%s-raised" % name, "%s raised %s" % (name, o[name][4:]))
    if o["memento"] == "none":
        return ("memento-none", "memento() of the current caller returned nothing")
    cur = {q.split("::")[-1] for q in o["current"]}
    for qn, ext in o["refs"]:
        if qn.split("::")[-1] not in cur and not ext:
            return ("vanished-not-external", "reference %s is not a current function yet not reported as external" % qn)
    # the caller's stored record has not been rewritten: it names the same functions as at the start
    # (compared with the cluster part: a callee that moved to another cluster does not rename what was stored)
    if {q for q, _ in o["refs"]} != {q for q, _ in first["refs"]}:
        return ("reference-names-changed", "the caller's memento names %s, when stored it named %s" % (sorted({q for q, _ in o["refs"]}), sorted({q for q, _ in first["refs"]})))
    # ... and with the same arguments
    # (not after a re-cluster step: a function-valued argument that has moved into the default cluster is normalised to its
    # present reference when the record is decoded, so the recomputed argument hash of that invocation differs - observed,
    # outside what the property states about names, listings and served entries)
    if not moved and o.get("inv_args") != first.get("inv_args"):
        return ("reference-arguments-changed", "the invocations recorded in the caller's memento read %s, when stored they read %s" % (o.get("inv_args"), first.get("inv_args")))
    for st in o.get("stubs", []):
        if len(st) == 2:
            return ("stub-raised", "listing through the stub of vanished %s raised %s" % (st[0], st[1][4:]))
        qn, n1, n2, q1, q2 = st
        if q1 != qn or q2 != qn:
            return ("stub-name", "the stub of vanished %s calls itself %s, its force_local clone %s" % (qn, q1, q2))
        if n1 < 1 or n2 != n1:
            return ("stub-listing", "through the stub of vanished %s: %d memento(s), through its force_local clone: %d (the call was memoized once)" % (qn, n1, n2))
    # nothing was forgotten: whatever was listed before is still listed under the same name with at least as many entries
    if isinstance(o["listed"], str):
        return ("listing-raised", "listing the functions and their mementos raised %s" % o["listed"][4:])
    # (also after a function moved to another cluster)
    if isinstance(prev["listed"], list):
        now = {q: n for q, n in o["listed"]}
        for q, n in prev["listed"]:
            if now.get(q, -1) < n:
                return ("listed-entries-lost", "%s had %d listed memento(s) before this step, now %s; listed now: %s" % (q, n, now.get(q, "is not listed"), o["listed"]))
    return None


def part_c_inproc(args):
    callee_kind, cluster, steps, mode, argpass = args
    lf = mode.endswith("-lf")
    top = scratch_dir("c12ci")
    out = {"evaluations": 1, "states": 1, "transitions": len(steps), "traces": 1, "violations": [], "outcomes": []}
    try:
        base = base_prog(callee_kind, cluster, argpass)
        progs = [base]
        for st in steps:
            nxt = apply_step(progs[-1], st, base)
            if nxt is None:
                out["evaluations"] = 0
                return out
            progs.append(nxt)
        obs = farm.fork_call(_c_inproc_child, top, os.path.join(top, "store"), cluster, progs, lf)
        want = obs[0]["value"]
        if obs[0]["bodies"] != (["R", "M", "D"] if argpass is True else ["R", "D"]) or (isinstance(want, str) and want.startswith("EXC")):
            out["violations"].append(("evolve-inproc|%s|callee:%s|step:none|first-run-wrong" % (_cl(cluster), callee_kind),
                                      "the first run of the caller/callee pair gave %r with bodies %s" % (want, obs[0]["bodies"]),
                                      {"part": "C", "callee": callee_kind, "cluster": cluster, "steps": [], "inproc": True, "argpass": argpass}))
            return out
        for k in range(1, len(obs)):
            bad = judge_c(obs[k], want, obs[k - 1], obs[0], "recluster" in steps[:k])
            if bad:
                sig = "evolve-inproc|%s|callee:%s%s|step:%s|%s%s" % (_cl(cluster), callee_kind, VARIANT.get(argpass, ""), steps[k - 1], bad[0], "|listed-first" if lf else "")
                out["violations"].append((sig, bad[1] + "\ncallee kind=%s cluster=%s passed-as-argument=%s in-process history=%s" % (callee_kind, cluster, argpass, list(steps[:k])),
                                          {"part": "C", "callee": callee_kind, "cluster": cluster, "steps": list(steps[:k]), "inproc": True, "argpass": argpass, "mode": mode}))
                break
        out["outcomes"].append("Ci:%s:%s:%s:%s" % (callee_kind, cluster, steps, argpass))
    except farm.ChildFailed as e:
        raise HarnessError("part C in-process child failed %s: %s" % (args, e))
    finally:
        rm(top)
    return out


def run(ctx):
    thorough = ctx.tier == "thorough"
    ctx.rule = ("A: all version strings over %s up to length %d x clusters {none, c, c.d, c:d} x modules {m, p.m} x functions "
                "{f, C.f}; B: versions of length <= %d (plus all length-3 strings containing ':' or '#' in thorough) as real "
                "explicit versions in default and named clusters on memory and filesystem backends; C: all step sequences of "
                "length <= 2 (thorough: 3, and 4 in the default cluster) over %s for callee kinds {memento, explicit, explicit with the empty version, explicit with a version containing '::' ':' '#'} x {default, named, named with a name that is a prefix of the module name} cluster x {callee called, callee handed to a middle function as an argument}, cross-process and in-process; listings may only grow. "
                "distinct = version strings / (version, cluster, backend) / evolution histories."
                % (SIGMA, 4 if thorough else 3, 2, STEPS))
    ctx.assumptions += ["cluster names do not contain '::'", "module and function names are dotted Python identifiers"]
    va = versions(4 if thorough else 3)
    chunks = [va[i:i + 200] for i in range(0, len(va), 200)]
    ctx.merge(pmap(part_a, chunks, chunksize=1))
    vb = versions(2) if thorough else versions(1) + [a + b for a in (":", "#", "1") for b in SIGMA] + ["a:", "1#", ".:"]
    if thorough:
        vb += [v for v in versions(3) if (":" in v or "#" in v)][::7]
    vb = list(dict.fromkeys(vb))
    bch = [vb[i:i + 12] for i in range(0, len(vb), 12)]
    ctx.merge(pmap(part_b, [(c, be) for c in bch for be in ("fs", "mem")], chunksize=1))
    tasks = []
    for kind in ("memento", "explicit", "explicit-empty", "explicit-colons"):
        for cluster in (None, "vfc", "vf"):
            if kind in ("explicit-empty", "explicit-colons") and cluster == "vf":
                continue  # "vf" is a prefix of the module name vfp.a
            for argpass in (False, True):
                for n in (1, 2, 3, 4) if thorough else (1, 2):
                    if n == 2 and not thorough and (cluster == "vf" or argpass):
                        continue
                    if n >= 3 and kind in ("explicit-empty", "explicit-colons"):
                        continue
                    if n == 3 and (cluster == "vf" or (argpass and kind == "explicit")):
                        continue
                    if n == 4 and (cluster is not None or argpass):
                        continue
                    for steps in itertools.product(STEPS, repeat=n):
                        tasks.append((kind, cluster, steps, "xproc", argpass))
                        tasks.append((kind, cluster, steps, "inproc", argpass))
                        if n == 1 or thorough and n == 2:
                            # the same history with the store listed before anything is read in each process / after each step
                            tasks.append((kind, cluster, steps, "xproc-lf", argpass))
                            tasks.append((kind, cluster, steps, "inproc-lf", argpass))
            if kind in ("memento", "explicit", "explicit-colons"):
                for steps in itertools.product([s_ for s_ in STEPS if s_ != "plain"], repeat=1):
                    tasks.append((kind, cluster, steps, "xproc", "ppartial"))
                    tasks.append((kind, cluster, steps, "inproc", "ppartial"))
            if kind not in ("explicit-empty", "explicit-colons"):
                for n in (1, 2):
                    for steps in itertools.product(STEPS_MODB, repeat=n):
                        tasks.append((kind, cluster, steps, "xproc", "modb"))
            if kind in ("memento", "explicit") and cluster != "vf":
                for n in (1, 2) if thorough else (1,):
                    for steps in itertools.product(STEPS, repeat=n):
                        tasks.append((kind, cluster, steps, "xproc", "wrapped-root"))
                        tasks.append((kind, cluster, steps, "inproc", "wrapped-root"))
    ctx.merge(pmap(part_c, tasks, chunksize=2))
    ctx.extra["parse_strings"] = len(va) * 16
    ctx.extra["store_versions"] = len(vb)
    ctx.extra["evolution_histories"] = len(tasks)
    ctx.sample({"part": "A", "qualified_name": "c:d::p.m:C.f#a:#"})
    ctx.sample({"part": "C", "history": list(tasks[-3])})


def replay(ctx, art):
    a = art["artefact"]
    if a["part"] == "A":
        from twosigma.memento.reference import FunctionReference

        print(a["qn"], "->", FunctionReference.parse_qualified_name(a["qn"]))
        r = part_a([a["qn"].split("#", 1)[1]])
    elif a["part"] == "B":
        r = part_b(([a["version"]], a["backend"]))
    else:
        r = part_c((a["callee"], a["cluster"], tuple(a["steps"]), a.get("mode") or ("inproc" if a.get("inproc") else "xproc"),
                    a.get("argpass") if a.get("argpass") in ("modb", "ppartial", "wrapped-root") else bool(a.get("argpass"))))
    for v in r["violations"]:
        print(v[0], "\n", v[1])
    print("REPLAY property=C12 result=%s" % bool(r["violations"]))
    return 1 if r["violations"] else 0

"""Functions for batch evaluation (C15) and provenance / context checks. Explicit versions."""
import sys

import twosigma.memento as m
from twosigma.memento.exception import NonMemoizedException


class Transient(NonMemoizedException):
    pass


@m.memento_function(cluster="vfc", version="1")
def b2(p, x):
    sys.audit("vf.body", "b2", (p, x))
    if x == "F":
        raise ValueError("failed-%s-%s" % (p, x))
    if x == "N":
        raise Transient("transient-%s-%s" % (p, x))
    return [p, x]

"""C10 - provenance is exact and independent of what was already memoized.

Generated call trees (plans interpreted by real memento functions: single, repeated, batched,
failing-caught, failing-uncaught sub-calls, resource handles) x every subset of the distinct
sub-invocations memoized beforehand by top-level calls x invocation mode {single, batch of one,
batch of two} x backends; oracle: the record (invocations in order with argument hashes,
resources, dependency set) predicted from the call tree, for the root and every intermediate call.
"""
import itertools
import json
import os

from ..core import scratch_dir, rm, pmap, pmap_dynamic
from . import c09

preimport = c09.preimport  # the concurrent part runs under the controlled scheduler (vf/sched.py)

SUBS = [[], [["r", "u1"]], [["raise"]], [["c", 3, []]], [["c", 3, [["r", "u3"]]], ["r", "u2"]]]


def menu():
    acts = []
    for j in (1, 2):
        for sub in SUBS:
            acts.append(["c", j, sub])
        acts.append(["x", j, [["raise"]]])
        acts.append(["x", j, [["c", 3, [["raise"]]]]])
    acts.append(["ci", 1, [["c", 3, []]]])   # sub-call made with ignore_result()
    acts.append(["ci", 2, [["r", "u1"]]])
    acts.append(["x", 1, [["c", 3, []], ["raise_nm"]]])   # the sub-call ends un-memoized after calling something itself
    acts.append(["b", 2, [[["c", 3, [["r", "u3"]]], ["raise_nm"]], []]])
    acts.append(["cc", 1, [["c", 3, []]]])
    acts.append(["b", 1, [[], [["c", 3, []]], []]])
    acts.append(["b", 2, [[["raise"]], [], [["r", "u1"]]]])
    acts.append(["r", "u0"])
    return acts


def model(i, plan, table):
    """Predicted record of call n_i(plan); fills table[(i, key(plan))]. Returns (deps, raises)."""
    k = (i, json.dumps(plan))
    if k in table:
        return table[k]["deps"], table[k]["raises"]
    rec = {"node": i, "plan": plan, "invocations": [], "resources": [], "deps": {i}, "raises": False, "transient": False}
    table[k] = rec
    for act in plan:
        t = act[0]
        if t in ("c", "x", "cc", "ci"):
            times = 2 if t == "cc" else 1
            stop = False
            for _ in range(times):
                rec["invocations"].append((act[1], act[2]))
                d, r = model(act[1], act[2], table)
                rec["deps"] |= d
                if r and t != "x":
                    rec["raises"] = True
                    rec["transient"] = table[(act[1], json.dumps(act[2]))]["transient"]  # propagates through an uncaught call
                    stop = True
                    break
            if stop:
                break
        elif t == "b":
            for p in act[2]:
                rec["invocations"].append((act[1], p))
                d, r = model(act[1], p, table)
                rec["deps"] |= d
        elif t == "r":
            rec["resources"].append(act[1])
        elif t == "raise":
            rec["raises"] = True
            break
        elif t == "raise_nm":
            rec["raises"] = True
            rec["transient"] = True
            break
    return rec["deps"], rec["raises"]


def _quiet(f, *a):
    try:
        f(*a)
    except Exception:
        pass


def case(args):
    import twosigma.memento as m
    from .c15 import mk_backend, use
    from ..fixtures import c10fx as fx

    kind, mode, plan, pre, other = args[:5]
    lose = len(args) > 5 and args[5]  # the stored RESULTS of the pre-memoized calls are lost (their mementos stay)
    nodes = {0: fx.n0, 1: fx.n1, 2: fx.n2, 3: fx.n3}
    top = scratch_dir("c10")
    out = {"evaluations": 1, "states": 1, "transitions": 0, "traces": 1, "violations": [], "outcomes": []}
    try:
        b = mk_backend(kind, os.path.join(top, "s"))
        use(b)
        for (j, p) in pre:
            try:
                nodes[j](p)
            except Exception:
                pass
        if lose and kind != "mem":
            for dp, dn, fns in os.walk(os.path.join(top, "s", "c", ".versions")):
                for fname in fns:
                    os.unlink(os.path.join(dp, fname))
            if kind == "fsc":
                b = mk_backend(kind, os.path.join(top, "s"))  # (nothing of it in a memory cache either)
                use(b)
        try:
            if mode == "single":
                fx.n0(plan)
            elif mode == "thread":
                # the root call is made in a worker thread (not the thread that imported the library)
                import threading

                th = threading.Thread(target=lambda: _quiet(fx.n0, plan))
                th.start()
                th.join()
            elif mode == "batch1":
                fx.n0.call_batch([{"plan": plan}], raise_first_exception=False)
            else:
                fx.n0.call_batch([{"plan": other}, {"plan": plan}], raise_first_exception=False)
        except Exception:
            pass
        table = {}
        model(0, plan, table)
        qn = {k: nodes[k].fn_reference().qualified_name for k in nodes}
        for (i, _), rec in table.items():
            out["transitions"] += 1
            mm = nodes[i].memento(rec["plan"])
            bad = None
            if rec["transient"]:
                if mm is not None:
                    bad = ("recorded-not-to-be-memoized", "n%d(%s) ended with a not-to-be-memoized exception but has a memento" % (i, rec["plan"]))
            elif mm is None:
                bad = ("no-memento", "no memento recorded for n%d(%s)" % (i, rec["plan"]))
            else:
                im = mm.invocation_metadata
                got_inv = [(x.fn_reference.qualified_name, x.arg_hash) for x in im.invocations]
                want_inv = [(qn[j], nodes[j].fn_reference().with_args(p).arg_hash) for j, p in rec["invocations"]]
                got_res = [(r.resource_type, r.url, r.version) for r in im.resources]
                want_res = [("vf", u, "v1") for u in rec["resources"]]
                got_dep = sorted(d.qualified_name for d in mm.function_dependencies)
                want_dep = sorted(qn[k] for k in rec["deps"])
                short = lambda L: [(a.split(":")[-1].split("#")[0], h[:6]) for a, h in L]  # noqa
                if got_inv != want_inv:
                    how = "order" if sorted(got_inv) == sorted(want_inv) else ("missing" if len(got_inv) < len(want_inv) else "extra-or-wrong")
                    bad = ("invocations-%s" % how, "invocations of n%d(%s): recorded %s, call tree says %s" % (i, rec["plan"], short(got_inv), short(want_inv)))
                elif got_res != want_res:
                    bad = ("resources", "resources of n%d(%s): recorded %s, obtained %s" % (i, rec["plan"], got_res, want_res))
                elif got_dep != want_dep:
                    how = "missing" if set(want_dep) - set(got_dep) else "extra"
                    bad = ("dependencies-%s" % how, "dependencies of n%d(%s): recorded %s, transitively invoked %s"
                           % (i, rec["plan"], [d.split(":")[-1] for d in got_dep], [d.split(":")[-1] for d in want_dep]))
                elif (im.result_type.name == "exception") != rec["raises"]:
                    bad = ("result-type", "n%d(%s) recorded result type %s, call tree raises=%s" % (i, rec["plan"], im.result_type.name, rec["raises"]))
            if bad:
                acts = "+".join(a[0] for a in rec["plan"])
                sig = "%s|%s|premem:%s%s|level:%s|acts:%s|%s" % (kind, mode, "some" if pre else "none", "+results-lost" if lose else "", "root" if i == 0 else "inner", acts, bad[0])
                out["violations"].append((sig, bad[1] + "\nbackend=%s mode=%s root plan=%s pre-memoized=%s" % (kind, mode, plan, pre),
                                          {"case": [kind, mode, plan, pre, other, bool(lose)]}))
                break
        out["outcomes"].append("%s|%s" % (json.dumps(plan), len(pre)))
    finally:
        rm(top)
    return out


# -- a callee is re-versioned while stored results of its (pinned) callers stay valid ---------------------------------
RV_EVENTS = ("call_mid", "call_top", "batch_top", "call_root", "bump_leaf", "reopen")


def rv_case(args):
    """One event history on the functions of fixtures/c10rv.py. After every event the dependency set of every stored,
    still addressable call must be what the model of 'computed once, served afterwards' says - read from the running
    backend and (filesystem) from a new backend object on the same directory."""
    from .c15 import mk_backend, use
    from ..fixtures import c10rv as fx

    kind, order, hist = args
    top_fn = fx.top_ml if order == "ml" else fx.top_lm
    top = scratch_dir("c10rv")
    out = {"evaluations": 1, "states": 1, "transitions": 0, "traces": 1, "violations": [], "outcomes": []}
    try:
        fx.set_leaf("1")
        leaf_v = 1
        b = mk_backend(kind, os.path.join(top, "s"))
        use(b)
        stored = {}  # (name, version) -> set of "name#version" (every function is called with the argument 1)
        ver = lambda n: str(leaf_v) if n == "leaf" else "1"  # noqa

        def call(n):
            k = (n, ver(n))
            if k not in stored:
                deps = {"%s#%s" % k}
                callees = {"leaf": [], "mid": ["leaf"], "top": ["mid", "leaf"] if order == "ml" else ["leaf", "mid"], "root": ["top"]}[n]
                for c in callees:
                    deps |= call(c)
                stored[k] = deps
            return stored[k]

        def look(label):
            fns = {"leaf": (fx.leaf, (1,)), "mid": (fx.mid, (1,)), "top": (top_fn, (1,)), "root": (fx.root, (1, order))}
            for n, (f, a) in fns.items():
                want = stored.get((n, ver(n)))
                mm = f.memento(*a)
                if want is None:
                    if mm is not None:
                        return ("ghost-record", "%s: %s(1) has a memento although it was never computed under its current version" % (label, n))
                    continue
                if mm is None:
                    return ("no-memento", "%s: no memento for %s(1)" % (label, n))
                got = {d.qualified_name.split(":")[-1].replace("top_ml", "top").replace("top_lm", "top") for d in mm.function_dependencies}
                if got != want:
                    how = "missing" if want - got else "extra"
                    return ("dependencies-%s" % how, "%s: dependencies of %s(1): recorded %s, transitively invoked %s" % (label, n, sorted(got), sorted(want)))
            return None

        for i, ev in enumerate(hist):
            out["transitions"] += 1
            if ev == "call_mid":
                fx.mid(1)
                call("mid")
            elif ev == "call_top":
                top_fn(1)
                call("top")
            elif ev == "batch_top":
                top_fn.call_batch([{"x": 1}])
                call("top")
            elif ev == "call_root":
                fx.root(1, order)
                call("root")
            elif ev == "bump_leaf":
                leaf_v += 1
                fx.set_leaf(str(leaf_v))
            elif ev == "reopen":
                if kind == "mem":
                    continue
                b = mk_backend(kind, os.path.join(top, "s"))
                use(b)
            bad = look("after %s (running backend)" % ev)
            if bad is None and kind != "mem" and i == len(hist) - 1:
                use(mk_backend("fs", os.path.join(top, "s")))
                bad = look("after %s (new backend object on the same directory)" % ev)
            if bad:
                sig = "reversioned-callee|%s|%s|%s" % (kind, ev, bad[0])
                out["violations"].append((sig, bad[1] + "\nbackend=%s order=%s history=%s" % (kind, order, list(hist)),
                                          {"rv": [kind, order, list(hist)]}))
                break
        out["outcomes"].append("rv|%s|%d" % (kind, len(stored)))
    finally:
        fx.set_leaf("1")
        rm(top)
    return out


def run(ctx):
    thorough = ctx.tier == "thorough"
    maxlen = 3 if thorough else 2
    nsub = 6 if thorough else 4
    ctx.rule = ("root plans = all action sequences of length 1..%d over a menu of %d actions (call / call twice / batch with a "
                "duplicate / failing caught / failing uncaught / resource, sub-plans to depth 3 over 4 functions) x every subset of "
                "the first %d distinct sub-invocations pre-memoized x (backend, invocation mode) pairs; record compared for the root "
                "and every intermediate call. distinct = (root plan, size of pre-memoized set)." % (maxlen, len(menu()), nsub))
    acts = menu()
    plans = []
    for L in range(1, maxlen + 1):
        for seq in itertools.product(acts, repeat=L):
            if L == 3 and len({a[0] for a in seq}) < 2:
                continue
            plans.append([list(a) for a in seq])
    if thorough:
        plans = [p for i, p in enumerate(plans) if len(p) < 3 or i % 5 == 0]
    combos = ([("mem", "single"), ("fs", "batch1"), ("fsc", "batch2"), ("fsc", "single")] if not thorough else
              [(k, mo) for k in ("mem", "fs", "fsc") for mo in ("single", "batch1", "batch2")])
    tasks = []
    for plan in plans:
        table = {}
        model(0, plan, table)
        subs = [(i, rec["plan"]) for (i, _), rec in table.items() if i != 0][:nsub]
        for r in range(len(subs) + 1):
            for pre in itertools.combinations(subs, r):
                for ci, (kind, mode) in enumerate(combos):
                    if not thorough and (len(pre) + ci) % 2 and len(subs) > 2:
                        continue  # quick: alternate (backend, mode) pairs over the subsets
                    tasks.append((kind, mode, plan, list(pre), [["r", "other"]]))
        # the root call made in a worker thread; and: the results (not the mementos) of the pre-memoized calls were lost
        if len(plan) == 1 or thorough:
            tasks.append(("fs", "thread", plan, [], [["r", "other"]]))
            tasks.append(("mem", "thread", plan, list(subs[:1]), [["r", "other"]]))
            for r in range(1, min(len(subs), 2) + 1):
                for pre in itertools.combinations(subs[:3], r):
                    tasks.append(("fs", "single", plan, list(pre), [["r", "other"]], True))
                    tasks.append(("fsc", "batch1", plan, list(pre), [["r", "other"]], True))
    if ctx.seed:
        import random

        random.Random(ctx.seed).shuffle(tasks)
    a = case(tasks[len(tasks) // 2])
    b = case(tasks[len(tasks) // 2])
    ctx.selfcheck("one case gives identical observations twice", a["violations"] == b["violations"] and a["transitions"] == b["transitions"])
    ctx.merge(pmap(case, tasks, chunksize=8))
    rvd = 5 if thorough else 4
    rvt = [(k, o, h) for k in ("mem", "fs", "fsc") for o in ("ml", "lm") for L in range(2, rvd + 1)
           for h in itertools.product(RV_EVENTS, repeat=L) if "bump_leaf" in h and not (k == "mem" and "reopen" in h)]
    ra, rb = rv_case(rvt[len(rvt) // 2]), rv_case(rvt[len(rvt) // 2])
    ctx.selfcheck("one re-versioned-callee history gives identical observations twice", ra["violations"] == rb["violations"])
    ctx.merge(pmap(rv_case, rvt, chunksize=16))
    ctx.extra["reversioned_callee_histories"] = len(rvt)
    ctx.rule += (" Re-versioned callee: all histories to length %d over %s on root -> top -> {mid (pinned) -> leaf, leaf}; leaf gets a new "
                 "version while stored results of its callers stay valid; after every event the dependency set of every stored call, read from "
                 "the running backend and from a new backend object, equals the versions invoked when it was computed." % (rvd, list(RV_EVENTS)))
    concurrent(ctx)
    ctx.extra["root_plans"] = len(plans)
    ctx.extra["cases"] = len(tasks)
    ctx.sample({"case": list(tasks[len(tasks) // 2])})
    ctx.sample({"case": list(tasks[-1])})


def conc_scenarios(tier):
    """A sub-call can also be obtained a fifth way: found in the store only after the caller's batch pre-check missed it,
    because another thread was computing it. Two threads whose call trees share a sub-tree."""
    out = []
    for be in (("mem", "fs+cache-all") if tier != "thorough" else ("mem", "fs", "fs+cache-all", "fs+cache-one")):
        out.append(("%s|cold|nested-shared" % be, be, "cold", [[("top1", 1)], [("top2", 1)]]))
        out.append(("%s|cold|nested-vs-inner" % be, be, "cold", [[("top1", 1)], [("mid", 1)]]))
        out.append(("%s|cold|nested-vs-leaf" % be, be, "cold", [[("top1", 1)], [("leaf", 1)]]))
    return out


def concurrent(ctx):
    thorough = ctx.tier == "thorough"
    tasks = []
    for scn in conc_scenarios(ctx.tier):
        tasks.append((scn, (), 1, {"cap": 150, "prov": True}))
        if thorough:
            # bound 2 with line points in the runner for the in-memory store, one point per call into runner / storage otherwise
            tasks.append((scn, (), 2, {"cap": 150, "prov": True, "gran": "runner" if scn[1] == "mem" else "calls"}))
    t1 = c09.run_once(tasks[0][0], (), prov=True)
    t2 = c09.run_once(tasks[0][0], (), prov=True)
    ctx.selfcheck("concurrent part: default schedule replays identically", t1[0] == t2[0] and t1[1] == t2[1])
    res = pmap_dynamic(c09.explore_subtree, tasks)
    n = 0
    for r in res:
        n += r["evaluations"]
        r["violations"] = [("concurrent|" + k, w, a) for k, w, a in r["violations"]]
    ctx.merge(res)
    ctx.states += n
    ctx.extra["concurrent"] = {"scenarios": [t[0][0] for t in tasks if "gran" not in t[3]], "schedules_executed": n,
                               "preemption_bound": "1 at line granularity" + (", 2 at runner (memory store) / call granularity" if thorough else "")}
    ctx.rule += (" Concurrent part: two threads whose call trees share a sub-tree (top1->mid->leaf with top2->mid->leaf, with mid, "
                 "with leaf), cold store, every schedule up to the preemption bound under the controlled scheduler; after each "
                 "execution the record of every call in both trees is compared with the static call tree.")


def replay(ctx, art):
    if "scenario" in art["artefact"]:
        a = art["artefact"]
        scn = next(s for s in conc_scenarios("thorough") if s[0] == a["scenario"])
        trace, token, bad, npoints = c09.run_once(scn, tuple(a["choices"]), a.get("opcodes", False), a.get("gran", "full"), True)
        print("observation:", token)
        print("REPLAY property=C10 result=%s" % (bad,))
        return 1 if bad else 0
    if "rv" in art["artefact"]:
        k, o, h = art["artefact"]["rv"]
        r = rv_case((k, o, tuple(h)))
        for v in r["violations"]:
            print(v[0], "\n", v[1])
        print("REPLAY property=C10 result=%s" % bool(r["violations"]))
        return 1 if r["violations"] else 0
    c = art["artefact"]["case"]
    r = case((c[0], c[1], c[2], [tuple(p) for p in c[3]], c[4]) + ((True,) if len(c) > 5 and c[5] else ()))
    for v in r["violations"]:
        print(v[0], "\n", v[1])
    print("REPLAY property=C10 result=%s" % bool(r["violations"]))
    return 1 if r["violations"] else 0

"""Runner plumbing shared by all checks: context, evidence, violations, known findings, pool.

A check module exposes ``run(ctx)`` (and optionally ``replay(ctx, artefact)``).  It reports
every explored case through ``ctx`` and every deviation through ``ctx.violation``.  Nothing
here decides a property; it only does the book-keeping the interface asks for.
"""
import atexit
import hashlib
import json
import multiprocessing
import os
import shutil
import sys
import tempfile
import time
import traceback

VERIF = os.path.dirname(os.path.dirname(os.path.abspath(__file__)))
REPO = os.environ.get("VF_REPO", "/repo")


class HarnessError(Exception):
    """Something the harness cannot attribute to the library (exit 2, never a VIOLATION)."""


# ---------------------------------------------------------------------------------------------
# scratch space
# ---------------------------------------------------------------------------------------------

_scratch_n = 0


def scratch_top() -> str:
    """One directory per top-level check process (children nest inside it); removed at exit."""
    top = os.environ.get("VF_SCRATCH_TOP")
    if top and os.path.isdir(top):
        return top
    base = "/dev/shm" if os.access("/dev/shm", os.W_OK) else tempfile.gettempdir()
    top = tempfile.mkdtemp(prefix="vf_%d_" % os.getpid(), dir=base)
    os.environ["VF_SCRATCH_TOP"] = top
    # temporary files the library itself creates (staging directories of on-disk partitions) go there too
    tmp = os.path.join(top, "tmp")
    os.makedirs(tmp, exist_ok=True)
    os.environ["TMPDIR"] = tmp
    tempfile.tempdir = tmp
    pid = os.getpid()

    def _cleanup(root=top, pid=pid):
        if os.getpid() == pid:
            shutil.rmtree(root, ignore_errors=True)

    atexit.register(_cleanup)
    return top


def scratch_root() -> str:
    root = os.path.join(scratch_top(), "p%d" % os.getpid())
    os.makedirs(root, exist_ok=True)
    return root


def scratch_dir(tag: str = "d") -> str:
    """A fresh empty directory (removed when the check exits; callers may remove it earlier)."""
    global _scratch_n
    _scratch_n += 1
    path = os.path.join(scratch_root(), "%s%d" % (tag, _scratch_n))
    os.makedirs(path)
    return path


def rm(path: str):
    shutil.rmtree(path, ignore_errors=True)


def object_state(obj, depth=3, roots=()):
    """Scalar instance attributes of a library object (and of the library objects it holds, to the given depth), as a sorted
    tuple. It goes into canonical state forms next to the fields a check knows about, so that two histories are only merged
    when the objects also agree in every attribute the check does NOT know about (e.g. one added by a code change)."""
    import collections

    out = []
    seen = set()

    def norm(text):
        for r in roots:
            if r:
                text = text.replace(r, "<root>")
        return text[:120]

    def walk(o, path, d):
        if id(o) in seen:
            return
        seen.add(id(o))
        try:
            items = sorted(vars(o).items())
        except TypeError:
            return
        for k, v in items:
            p = path + "." + k
            if isinstance(v, (bool, int, float, str, bytes, type(None))):
                out.append((p, norm(repr(v))))
            elif isinstance(v, (list, tuple, set, frozenset, dict, collections.deque)):
                out.append((p, "%s[%d]" % (type(v).__name__, len(v))))
            elif d > 0 and (type(v).__module__ or "").startswith("twosigma."):
                walk(v, p, d - 1)

    walk(obj, "", depth)
    return tuple(out)


def reset_scratch_after_fork():
    pass


# ---------------------------------------------------------------------------------------------
# process pool (fork; workers inherit the warm parent)
# ---------------------------------------------------------------------------------------------

def ncpu() -> int:
    try:
        return max(1, min(16, len(os.sched_getaffinity(0))))
    except Exception:
        return 4


def _pool_init():
    pass


def _call_wrapped(args):
    fn, a = args
    try:
        return ("ok", fn(a))
    except HarnessError as e:
        return ("harness", "%s\n%s" % (e, traceback.format_exc()))
    except BaseException as e:  # noqa
        return ("crash", "%r\n%s" % (e, traceback.format_exc()))


def pmap(fn, items, chunksize=None, procs=None):
    """Ordered parallel map over a fork pool.  A worker exception is a harness error."""
    items = list(items)
    if not items:
        return []
    procs = procs or ncpu()
    if procs == 1 or len(items) == 1 or os.environ.get("VF_SERIAL"):
        out = [_call_wrapped((fn, a)) for a in items]
    else:
        ctx = multiprocessing.get_context("fork")
        if chunksize is None:
            chunksize = max(1, min(64, len(items) // (procs * 8) or 1))
        with ctx.Pool(procs, initializer=_pool_init) as pool:
            out = pool.map(_call_wrapped, [(fn, a) for a in items], chunksize=chunksize)
    res = []
    for tag, val in out:
        if tag != "ok":
            raise HarnessError("worker failed (%s): %s" % (tag, val))
        res.append(val)
    return res


def pmap_dynamic(fn, items, procs=None):
    """Unordered parallel map where ``fn(item)`` returns ``(result, more_items)``; the extra items
    are fed back into the queue (work splitting for unbalanced search trees)."""
    import collections

    procs = procs or ncpu()
    queue = collections.deque(items)
    results = []
    if procs == 1 or os.environ.get("VF_SERIAL"):
        while queue:
            tag, val = _call_wrapped((fn, queue.popleft()))
            if tag != "ok":
                raise HarnessError("worker failed (%s): %s" % (tag, val))
            results.append(val[0])
            queue.extend(val[1])
        return results
    ctx = multiprocessing.get_context("fork")
    with ctx.Pool(procs, initializer=_pool_init) as pool:
        pending = []
        while queue or pending:
            while queue and len(pending) < procs * 3:
                pending.append(pool.apply_async(_call_wrapped, ((fn, queue.popleft()),)))
            still = []
            progressed = False
            for p in pending:
                if p.ready():
                    progressed = True
                    tag, val = p.get()
                    if tag != "ok":
                        raise HarnessError("worker failed (%s): %s" % (tag, val))
                    results.append(val[0])
                    queue.extend(val[1])
                else:
                    still.append(p)
            pending = still
            if not progressed:
                time.sleep(0.005)
    return results


# ---------------------------------------------------------------------------------------------
# known findings
# ---------------------------------------------------------------------------------------------

def load_known():
    path = os.path.join(VERIF, "known_findings.json")
    if not os.path.exists(path):
        return []
    with open(path) as f:
        return json.load(f).get("findings", [])


# ---------------------------------------------------------------------------------------------
# check context
# ---------------------------------------------------------------------------------------------

def jsonable(o, depth=0):
    if depth > 8:
        return repr(o)
    if o is None or isinstance(o, (bool, int, str)):
        return o
    if isinstance(o, float):
        return o if o == o and o not in (float("inf"), float("-inf")) else repr(o)
    if isinstance(o, (list, tuple)):
        return [jsonable(x, depth + 1) for x in o]
    if isinstance(o, dict):
        return {str(k): jsonable(v, depth + 1) for k, v in o.items()}
    if isinstance(o, (set, frozenset)):
        return sorted((jsonable(x, depth + 1) for x in o), key=repr)
    return repr(o)


class Ctx:
    def __init__(self, prop: str, tier: str, level: str = "model_checking"):
        self.prop = prop
        self.tier = tier
        self.level = level
        self.seed = int(os.environ.get("VERIF_SEED", "0") or 0)
        self.t0 = time.time()
        self.evaluations = 0
        self.states = 0
        self.transitions = 0
        self.traces = 0
        self.distinct = set()
        self.samples = []
        self.extra = {}
        self.assumptions = []
        self.rule = ""
        self.exhaustive = True
        self.caps = []
        self._viol = {}  # key -> (what, artefact)
        self.selfchecks = []

    # -- coverage bookkeeping ----------------------------------------------------------------
    def count(self, evaluations=0, states=0, transitions=0, traces=0):
        self.evaluations += evaluations
        self.states += states
        self.transitions += transitions
        self.traces += traces

    def outcome(self, token):
        """Record a distinct non-trivial observed outcome / canonical state (counted)."""
        if not isinstance(token, str):
            token = json.dumps(jsonable(token), sort_keys=True)
        if len(token) > 80:
            token = hashlib.sha1(token.encode()).hexdigest()
        self.distinct.add(token)

    def sample(self, s, limit=6):
        if len(self.samples) < limit:
            self.samples.append(jsonable(s))

    def cap(self, what):
        self.exhaustive = False
        self.caps.append(what)

    def selfcheck(self, name, ok, detail=""):
        self.selfchecks.append({"name": name, "ok": bool(ok), "detail": detail})
        if not ok:
            raise HarnessError("determinism self-check failed: %s %s" % (name, detail))

    # -- violations ------------------------------------------------------------------------------
    def violation(self, key: str, what: str, artefact: dict):
        """Record a deviation.  ``key`` is the signature of the specific failing input / history
        (first one recorded per key wins: enumeration is simplest-first)."""
        if key not in self._viol:
            self._viol[key] = (what, artefact)

    def merge(self, results):
        """Merge worker results: each is a dict with optional keys evaluations, states,
        transitions, traces, outcomes (list), samples (list), violations (list of triples)."""
        for r in results:
            if not r:
                continue
            self.count(r.get("evaluations", 0), r.get("states", 0), r.get("transitions", 0),
                       r.get("traces", 0))
            for o in r.get("outcomes", ()):
                self.outcome(o)
            for s in r.get("samples", ()):
                self.sample(s)
            for (k, w, a) in r.get("violations", ()):
                self.violation(k, w, a)
            for c in r.get("caps", ()):
                self.cap(c)

    # -- finishing -------------------------------------------------------------------------------
    def finish(self) -> int:
        known = [k for k in load_known() if k.get("property") == self.prop]
        known_keys = {k["key"]: k for k in known if k.get("status") == "known"}
        unknown = []
        seen_known = []
        for key, (what, art) in sorted(self._viol.items()):
            if key in known_keys:
                seen_known.append((key, known_keys[key]))
            else:
                unknown.append((key, what, art))
        for key, k in seen_known:
            print("KNOWN-FINDING: property=%s %s [%s]" % (self.prop, k.get("what", ""), key))
        paths = []
        vd = os.path.join(os.environ.get("VF_VIOLATIONS_DIR") or os.path.join(VERIF, "violations"), self.prop)
        if os.path.isdir(vd):  # artefacts of earlier runs are stale
            for old in os.listdir(vd):
                try:
                    os.unlink(os.path.join(vd, old))
                except OSError:
                    pass
        for key, what, art in unknown:
            d = os.path.join(os.environ.get("VF_VIOLATIONS_DIR") or os.path.join(VERIF, "violations"), self.prop)
            os.makedirs(d, exist_ok=True)
            digest = hashlib.sha1(key.encode()).hexdigest()[:12]
            path = os.path.join(d, digest + ".json")
            with open(path, "w") as f:
                json.dump({"property": self.prop, "key": key, "what": what,
                           "artefact": jsonable(art)}, f, indent=1, sort_keys=True)
            paths.append(path)
            print("VIOLATION property=%s replay=%s" % (self.prop, path))
            print("  key=%s\n  %s" % (key, what.replace("\n", "\n  ")))
        self.write_evidence(len(unknown), [k for k, _ in seen_known])
        sys.stdout.flush()
        return 1 if unknown else 0

    def write_evidence(self, nviol, known_seen):
        if not self.samples:
            self.samples.append("(no sample recorded)")
        cov = {
            "evaluations": int(self.evaluations),
            "distinct_nontrivial": len(self.distinct),
            "rule": self.rule,
            "samples": self.samples,
            "states": int(max(self.states, 0)),
            "transitions": int(max(self.transitions, 0)),
            "traces_validated_against_impl": int(self.traces),
            "exhaustive": bool(self.exhaustive),
            "caps_hit": self.caps,
            "determinism_selfchecks": self.selfchecks,
            "known_findings_seen": known_seen,
        }
        cov.update(jsonable(self.extra))
        ev = {
            "property_id": self.prop,
            "tier": self.tier,
            "seed": self.seed,
            "level": self.level,
            "coverage": cov,
            "assumptions": self.assumptions,
            "wall_s": round(time.time() - self.t0, 3),
            "violations": nviol,
        }
        d = os.environ.get("VF_EVIDENCE_DIR") or os.path.join(VERIF, "evidence")
        os.makedirs(d, exist_ok=True)
        tmp = os.path.join(d, ".%s.json.tmp" % self.prop)
        with open(tmp, "w") as f:
            json.dump(ev, f, indent=1, sort_keys=True)
        os.replace(tmp, os.path.join(d, "%s.json" % self.prop))


def assert_repo_binding():
    """The checks must exercise /repo's current working tree."""
    import twosigma.memento as m

    here = os.path.realpath(m.__file__)
    want = os.path.realpath(REPO)
    if not here.startswith(want + os.sep):
        raise HarnessError("twosigma.memento imported from %s, expected under %s" % (here, want))

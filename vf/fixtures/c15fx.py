"""Functions for batch evaluation (C15) and provenance / context checks. Explicit versions."""
import sys

import twosigma.memento as m
from twosigma.memento.exception import NonMemoizedException


class Transient(NonMemoizedException):
    pass


@m.memento_function(cluster="vfc", version="1")
def b2(p, x):
    sys.audit("vf.body", "b2", (p, x))
    if x == "F":
        raise ValueError("failed-%s-%s" % (p, x))
    if x == "N":
        raise Transient("transient-%s-%s" % (p, x))
    return [p, x]


def _show(r):
    return "exc:%s" % type(r).__name__ if isinstance(r, Exception) else r


@m.memento_function(cluster="vfc", version="1", dependencies=[b2])
def parent_batch(xs):
    """Evaluates the elements in ONE batch from inside a running memento function."""
    sys.audit("vf.body", "parent_batch", xs)
    return [_show(r) for r in b2.partial(7).call_batch([{"x": x} for x in xs], raise_first_exception=False)]


@m.memento_function(cluster="vfc", version="1", dependencies=[b2])
def parent_each(xs):
    """The same elements one call at a time."""
    sys.audit("vf.body", "parent_each", xs)
    out = []
    for x in xs:
        try:
            out.append(b2.partial(7)(x=x))
        except Exception as e:
            out.append(_show(e))
    return out

"""C07 - result blobs are content-addressed, deduplicated and immutable once referenced.

Same exploration as C05 on the filesystem backend (with/without cache, shared/separate metadata
path), alphabet extended with byte-identical results from different calls and functions,
partition results, exception results and key-override writes to one shared key; after every
transition the whole data store is scanned (engine: vf/storemc.py, StoreRun.integrity).
"""
from .. import storemc
from ..storemc import KEYS


def configs(tier, seed):
    cfgs = []
    if tier == "quick":
        for b in ("fs", "fsc4"):
            cfgs.append(("c07", b, KEYS, ("s", "D", "P", "N"), False, 2, seed))
        for b in ("fs+m", "fsc4+m"):
            cfgs.append(("c07", b, [KEYS[0], KEYS[2]], ("s", "D", "P", "E"), False, 3, seed))
    else:
        for b in ("fs", "fs+m", "fsc4", "fsc4+m"):
            cfgs.append(("c07", b, KEYS, ("s", "D", "P", "N", "E"), False, 3, seed))
        for b in ("fs", "fsc4"):
            cfgs.append(("c07", b, [KEYS[0], KEYS[2]], ("s", "D", "P"), False, 5, seed))
    return cfgs


def run(ctx):
    ctx.rule = ("C05 history BFS on the filesystem backend with value classes s (unique), D (byte-identical across "
                "calls and functions), P (partition: index + per-key blobs), None, exception, and key-override writes "
                "of s/t/None/D/P to one shared key; after every transition: sha256(bytes)==key for every object, every "
                "link names bytes hashing to it, at most one object per content key, every live memento re-reads "
                "exactly its original bytes. distinct = canonical real states.")
    ctx.assumptions += ["layout c/<sha256>.link -> c/.versions/<uuid>/<sha256> as documented in _FilesystemDataSource"]
    c0 = ("c07", "fs", KEYS, ("s", "D"), False, 3, 0)
    h = (("memo", 0, "D", None), ("memo", 2, "D", None), ("memo", 0, "s", "k1"), ("fc", 2))
    ctx.selfcheck("same history twice gives the same canonical state",
                  storemc.build(c0, h).canon() == storemc.build(c0, h).canon())
    storemc.run_configs(ctx, configs(ctx.tier, ctx.seed))


def replay(ctx, art):
    return storemc.replay_history(art)

"""E1 - explicit-state breadth-first search over the *real* transition function.

A state is the operation history that reaches it (live objects rarely copy); ``expand(cfg,
hist)`` rebuilds the real object(s) by replaying ``hist`` and then tries every operation of the
alphabet from there, returning for each one

    (op, canon_digest | None, bad | None, outcome_token | None)

where ``bad`` is ``(signature, description, artefact)`` when the transition violated the oracle
(such transitions are not expanded further) and ``canon_digest`` identifies the canonical real
state reached.  The search keeps one history per canonical state, level by level, farming the
expansions of a level to a fork pool.
"""
import hashlib
import multiprocessing
import os

from .core import HarnessError, ncpu, _pool_init, _call_wrapped


def digest(canon) -> str:
    return hashlib.sha1(repr(canon).encode()).hexdigest()


def _expand_task(args):
    expand, cfg, hists = args
    out = []
    for h in hists:
        out.append((h, expand(cfg, h)))
    return out


def explore(expand, cfg, init_digest, max_depth=None, max_states=None, procs=None, label=""):
    procs = procs or ncpu()
    seen = {init_digest}
    level = [()]
    res = {"states": 1, "transitions": 0, "traces": 0, "violations": [], "outcomes": set(),
           "samples": [], "caps": [], "depth": 0, "closure": False, "per_level": []}
    ctx = multiprocessing.get_context("fork")
    pool = ctx.Pool(procs, initializer=_pool_init) if procs > 1 and not os.environ.get("VF_SERIAL") else None
    try:
        depth = 0
        while level:
            if max_depth is not None and depth >= max_depth:
                res["caps"].append("%s depth cap %d reached with %d frontier states" % (label, max_depth, len(level)))
                break
            # chunk histories
            n = max(1, min(32, len(level) // (procs * 4) or 1))
            chunks = [level[i:i + n] for i in range(0, len(level), n)]
            tasks = [(_expand_task, (expand, cfg, c)) for c in chunks]
            if pool is not None and len(chunks) > 1:
                outs = pool.map(_call_wrapped, tasks)
            else:
                outs = [_call_wrapped(t) for t in tasks]
            nxt = []
            capped = False
            for tag, val in outs:
                if tag != "ok":
                    raise HarnessError("bfs worker failed (%s): %s" % (tag, val))
                for h, succ in val:
                    for op, dg, bad, tok in succ:
                        res["transitions"] += 1
                        res["traces"] += 1
                        if bad is not None:
                            res["violations"].append(bad)
                            continue
                        if tok is not None:
                            res["outcomes"].add(tok)
                        if dg is None or dg in seen:
                            continue
                        seen.add(dg)
                        res["states"] += 1
                        nh = h + (op,)
                        if len(res["samples"]) < 3 and len(nh) >= 3:
                            res["samples"].append({"cfg": label, "history": [list(o) if isinstance(o, (list, tuple)) else o for o in nh]})
                        if max_states is not None and len(seen) >= max_states:
                            capped = True
                        nxt.append(nh)
            depth += 1
            res["depth"] = depth if nxt else res["depth"]
            res["per_level"].append(len(nxt))
            if capped:
                res["caps"].append("%s state cap %d reached at depth %d" % (label, max_states, depth))
                break
            level = nxt
        else:
            pass
        if not res["caps"]:
            res["closure"] = True
    finally:
        if pool is not None:
            pool.terminate()
            pool.join()
    res["outcomes"] = sorted(res["outcomes"])
    return res

"""Helpers of the C09 fixtures that must NOT add scheduling points (this file is not traced)."""
import sys

runs = {}       # x -> number of body executions of flaky(x) so far (reset by the harness per execution)
inside = set()  # x currently inside the body of flaky(x)


def enter(x):
    sys.audit("vf.body", "flaky", x)
    if x in inside:
        sys.audit("vf.body", "OVERLAP", x)
    inside.add(x)


def attempt(x, exc):
    runs[x] = runs.get(x, 0) + 1
    if runs[x] == 1:
        raise exc("first attempt of flaky(%s) fails" % x)
    return "flaky-%s" % x

"""C03 - function versions are deterministic, so unchanged programs reuse stored results.

Generated programs (C01 skeletons + constant-heavy variants) x a set of PYTHONHASHSEED values
(one fresh interpreter per seed) x all permutations of the definition order of the functions x
both import orders x all permutations of the first-query order: every function must have ONE
version over the whole matrix; then a second process with another seed and another definition
order re-runs every root against the store the first process filled: zero function bodies.
"""
import itertools
import json
import os
import subprocess
import sys

from ..core import scratch_dir, rm, pmap, HarnessError, VERIF, REPO
from .. import progen
from ..progen import mkfunc, call
from . import c01


def programs(tier):
    progs = [(n, p) for n, p in c01.skeletons(tier) if "hidden" not in n]
    progs.append(("constant-heavy", {
        "funcs": [mkfunc("R", calls=[call("D")], reads=["GD", "GL", "GT"]),
                  mkfunc("D", kind="plain", reads=["GD"]),
                  mkfunc("S", calls=[call("R")], rich=True)],
        "vars": {"GD": {"zeta": 1, "alpha": 2, "mid": {"b": 1, "a": 2}}, "GL": ["x", "y", "z", "w"], "GT": 1.25}}))
    p = progs[-1][1]
    for f in p["funcs"]:
        if "set_const" in f:
            f["set_const"] = ["alpha", "beta", "gamma", "delta", "epsilon", "zeta", "eta"]
    progs.append(("same-leaf-two-namespaces", {
        "funcs": [mkfunc("R", reads=["Fast.LIMIT", "Slow.LIMIT", "Fast.NAME"], rich=False)],
        "vars": {}, "classes": {"Fast": {"LIMIT": 1, "NAME": "f"}, "Slow": {"LIMIT": 2, "NAME": "s"}}}))
    progs.append(("in-place-fill", {
        "funcs": [mkfunc("R", calls=[call("D")], reads=["GL", "GD"], rich=False), mkfunc("D", kind="plain", reads=["GL"], rich=False)],
        "vars": {"GL": [1], "GD": {}}, "stmts": {"@fill_list": "GL.append(2)", "@fill_dict": "GD['k'] = 3", "@fill_dict2": "GD['a'] = 4"}}))
    # default values that cannot be encoded as arguments (object() marker, instance of a class without __repr__)
    sd = {"funcs": [mkfunc("R", calls=[call("D")], rich=False), mkfunc("D", kind="plain", rich=False)], "vars": {}}
    for f in sd["funcs"]:
        f["sentinel_default"] = True
    progs.append(("sentinel-defaults", sd))
    # two modules using the same global name for different things
    progs.append(("same-name-two-modules", {
        "funcs": [mkfunc("R", calls=[call("D", "modattr")], reads=["SCALE", "OFFSET"], rich=False),
                  mkfunc("D", module="b", calls=[call("H")], reads=["SCALE", "OFFSET"], rich=False),
                  mkfunc("H", kind="plain", module="b", reads=["SCALE"], rich=False)],
        "vars": {"SCALE": 2, "OFFSET": [1]}, "b_vars": {"SCALE": 3, "OFFSET": [2, 3]}}))
    # a plain helper and a tracked variable that carry the names of builtins (defined before or after their user)
    progs.append(("builtin-named-helpers", {
        "funcs": [mkfunc("R", calls=[call("filter")], reads=["hash"], rich=False), mkfunc("filter", kind="plain", rich=False),
                  mkfunc("S", calls=[call("R")], rich=False)],
        "vars": {"hash": 11}, "late": ["hash"]}))
    # helpers that share ONE code object and differ only in a default value (made by a factory), used by different
    # memento functions: which of them is hashed first depends on the query order
    progs.append(("factory-made-helpers", {
        "funcs": [mkfunc("R1", calls=[call("double")], rich=False), mkfunc("R2", calls=[call("triple")], rich=False)],
        "vars": {}, "fixed_order": True,
        "stmts": {"@factory": "def make(k):\n    def scale(x, k=k):\n        return x * k\n    return scale", "@double": "double = make(2)",
                  "@triple": "triple = make(3)"},
        "order": ["@factory", "@double", "@triple", "R1", "R2"]}))
    # ONE memento function using several helpers that share a qualified name: module-level lambdas, closures made by one
    # factory (the order in which the helper names are visited follows the hash seed)
    progs.append(("same-qualname-helpers-lambdas", {
        "funcs": [mkfunc("R", calls=[call("double"), call("triple"), call("quad")], rich=False)],
        "vars": {}, "fixed_order": True,
        "stmts": {"@double": "double = lambda x: x * 2", "@triple": "triple = lambda x: x * 3", "@quad": "quad = lambda x: x * 4"},
        "order": ["@double", "@triple", "@quad", "R"]}))
    progs.append(("same-qualname-helpers-closures", {
        "funcs": [mkfunc("R", calls=[call("double"), call("triple"), call("quad")], rich=False)],
        "vars": {}, "fixed_order": True,
        "stmts": {"@factory": "def make(k):\n    def scale(x, k=k):\n        return x * k\n    return scale", "@double": "double = make(2)",
                  "@triple": "triple = make(3)", "@quad": "quad = make(4)"},
        "order": ["@factory", "@double", "@triple", "@quad", "R"]}))
    # a global that is a None placeholder when its reader is defined and is assigned by a later module-level statement
    progs.append(("none-placeholder", {
        "funcs": [mkfunc("R", calls=[call("D")], reads=["LIMIT", "MODE"], rich=False), mkfunc("D", kind="plain", reads=["MODE"], rich=False)],
        "vars": {"LIMIT": None, "MODE": None}, "stmts": {"@set_limit": "LIMIT = 10", "@set_mode": "MODE = 'fast'"}}))
    # a memento function and a plain function of ANOTHER package, both referenced from the root (and through a helper)
    progs.append(("cross-package-siblings", {
        "funcs": [mkfunc("R", calls=[call("G", "xpkg"), call("K", "xpkg"), call("P")], rich=False),
                  mkfunc("P", kind="plain", calls=[call("K2", "xpkg"), call("G2", "xpkg")], rich=False),
                  mkfunc("G", module="q", rich=False), mkfunc("K", kind="plain", module="q", rich=False),
                  mkfunc("G2", module="q", rich=False), mkfunc("K2", kind="plain", module="q", rich=False)],
        "vars": {}}))
    return progs


def seed_run(args):
    seed, tasks = args
    top = scratch_dir("c03w")
    tf = os.path.join(top, "tasks.json")
    of = os.path.join(top, "out.json")
    json.dump(tasks, open(tf, "w"))
    env = dict(os.environ, PYTHONHASHSEED=str(seed), PYTHONPATH="%s:%s" % (REPO, VERIF))
    r = subprocess.run([sys.executable, "-m", "vf.seedworker", tf, of], env=env, capture_output=True, text=True, cwd=VERIF)
    if r.returncode != 0 or not os.path.exists(of):
        raise HarnessError("seed worker %s failed: %s" % (seed, r.stderr[-2000:]))
    out = json.load(open(of))
    rm(top)
    return out


def run(ctx):
    thorough = ctx.tier == "thorough"
    seeds = list(range(8 if not thorough else 32)) + [1000 + ctx.seed]
    ctx.rule = ("programs x PYTHONHASHSEED in %s (one fresh interpreter per seed) x all permutations of definition order "
                "(<=4 functions) x import order x all permutations of first-query order; oracle: one version per function "
                "over the matrix, and a second process (other seed, other order) runs zero bodies on the first one's store. "
                "distinct = (program, seed, definition order, query order) combinations with their version vector."
                % (seeds,))
    progs = programs(ctx.tier)
    top = scratch_dir("c03")
    tasks = []  # shared by all seeds: (program index, variant description, task)
    meta = []
    for pi, (name, p) in enumerate(progs):
        fa = [f["name"] for f in p["funcs"] if f["module"] == "a"] + list(p.get("stmts", {}))
        mem_a = [f["name"] for f in p["funcs"] if f["module"] == "a" and f["kind"] != "plain"]
        orders = list(itertools.permutations(fa)) if len(fa) <= 5 else [tuple(fa), tuple(reversed(fa))]
        if p.get("fixed_order"):  # module-level statements first, in the given order; the functions after them in every order
            pre = [n for n in p["order"] if n.startswith("@")]
            orders = [tuple(pre) + perm for perm in itertools.permutations([n for n in p["order"] if not n.startswith("@")])]
        qorders = list(itertools.permutations(mem_a))
        if not thorough:
            qorders = qorders[:2] + qorders[-1:]
        for oi, order in enumerate(dict.fromkeys(orders)):
            q = dict(p)
            q["order"] = list(order)
            root = os.path.join(top, "p%d_o%d" % (pi, oi))
            progen.write_pkg(q, root)
            has_b = any(f["module"] == "b" for f in p["funcs"])
            for qi, qo in enumerate(dict.fromkeys(qorders)):
                for ib in ((False, True) if has_b and qi == 0 else (False,)):
                    tasks.append({"root": root, "query_order": list(qo), "import_b_first": ib})
                    meta.append((pi, oi, qi, ib))
    res = pmap(seed_run, [(s, tasks) for s in seeds], chunksize=1)
    versions = {}  # (pi, fname) -> {version: first (seed, meta)}
    set_orders = set()
    for s, out in zip(seeds, res):
        for mt, r in zip(meta, out):
            ctx.count(evaluations=1, states=1, transitions=1, traces=1)
            if "error" in r:
                raise HarnessError("seed %s task %s: %s" % (s, mt, r["error"]))
            set_orders.add(tuple(r["set_order"]))
            ctx.outcome("%s|%s|%s" % (s, mt, sorted(r["versions"].items())))
            for fn, v in r["versions"].items():
                versions.setdefault((mt[0], fn), {}).setdefault(v, (s, mt))
    ctx.extra["distinct_set_iteration_orders_exercised"] = len(set_orders)
    ctx.extra["seeds"] = seeds
    if len(set_orders) < 2:
        raise HarnessError("hash seeds did not produce two distinct set iteration orders: vacuous")
    for (pi, fn), vs in sorted(versions.items()):
        if len(vs) > 1 or any(v.startswith("EXC") for v in vs):
            items = sorted(vs.items(), key=lambda kv: kv[1])
            (v1, (s1, m1)), (v2, (s2, m2)) = items[0], items[-1]
            cause = []
            if s1 != s2 and m1 == m2:
                cause.append("hash-seed")
            if m1[1] != m2[1]:
                cause.append("definition-order")
            if m1[2] != m2[2]:
                cause.append("query-order")
            if m1[3] != m2[3]:
                cause.append("import-order")
            # attribute to the seed alone if the same (order, query) differs between seeds
            by_meta = {}
            for v, (s, mt) in vs.items():
                by_meta.setdefault(mt, set()).add(v)
            sig = "%s|%s|versions-differ-by:%s" % (progs[pi][0], fn, "+".join(cause) or "hash-seed")
            ctx.violation(sig, "function %s of program %s has %d versions over the matrix, e.g. %s (seed %s, order/query %s) vs %s (seed %s, %s)"
                          % (fn, progs[pi][0], len(vs), v1, s1, m1[1:], v2, s2, m2[1:]),
                          {"program": pi, "function": fn, "versions": {v: [s, list(mt)] for v, (s, mt) in vs.items()}})
    # third dimension of "query order": the original and a long-lived clone of it, asked in either order after a tracked
    # variable changed in the running process, must agree with each other and between the two orders
    qt, qmeta = [], []
    for pi, (name, p) in enumerate(progs):
        ivars = [v for v, val in p.get("vars", {}).items() if isinstance(val, int) and not isinstance(val, bool)]
        mem_a = [f["name"] for f in p["funcs"] if f["module"] == "a" and f["kind"] == "memento"]
        if not ivars or not mem_a or p.get("fixed_order"):
            continue
        for order in ("orig-first", "clone-first"):
            qt.append({"root": os.path.join(top, "p%d_o0" % pi), "query_order": mem_a[:1], "inproc_change": [ivars[0], p["vars"][ivars[0]] + 100, order]})
            qmeta.append((pi, mem_a[0], order))
    if qt:
        rq = seed_run((seeds[0], qt))
        seen_q = {}
        for (pi, fn, order), r in zip(qmeta, rq):
            ctx.count(evaluations=1, states=1, transitions=2, traces=1)
            if "error" in r:
                raise HarnessError("clone query task failed: %s" % r["error"])
            vs = r["versions"]
            a_, b_ = vs.get("%s/orig" % fn), vs.get("%s/clone" % fn)
            if a_ != b_ or str(a_).startswith("EXC"):
                ctx.violation("%s|clone-and-original-disagree|%s" % (progs[pi][0], order),
                              "after a tracked variable changed in the running process, %s reports version %s and its long-lived partial() clone %s (asked %s)"
                              % (fn, a_, b_, order), {"program": pi, "function": fn, "order": order})
            seen_q.setdefault((pi, fn), set()).add((a_, b_))
        for (pi, fn), vals in seen_q.items():
            if len(vals) > 1:
                ctx.violation("%s|versions-differ-by:clone-query-order" % progs[pi][0], "versions of %s and its clone depend on which is asked first: %s" % (fn, sorted(vals)),
                              {"program": pi, "function": fn})
    # second part: process B (other seed, other order) must run no body on process A's store
    t2 = []
    for pi, (name, p) in enumerate(progs):
        mem_a = [f["name"] for f in p["funcs"] if f["module"] == "a" and f["kind"] == "memento"]
        nodef = {f["name"] for f in p["funcs"] if f.get("no_pos_default")}
        calls = [[n, [1]] for n in mem_a] + [[n, []] for n in mem_a if n not in nodef]
        fa = [f["name"] for f in p["funcs"] if f["module"] == "a"] + list(p.get("stmts", {}))
        store = os.path.join(top, "store%d" % pi)
        t2.append((pi, calls, store, os.path.join(top, "p%d_o0" % pi), ([n for n in p["order"] if n.startswith("@")] + list(reversed([n for n in p["order"] if not n.startswith("@")]))) if p.get("fixed_order") else list(reversed(fa))))
    A = [{"root": r, "query_order": [], "store": st, "calls": c} for (pi, c, st, r, _) in t2]
    resA = seed_run((seeds[1], A))
    B = []
    for (pi, c, st, r, rev) in t2:
        q = dict(progs[pi][1])
        q["order"] = rev
        root = os.path.join(top, "p%d_rev" % pi)
        progen.write_pkg(q, root)
        B.append({"root": root, "query_order": [], "store": st, "calls": list(reversed(c))})
    resB = seed_run((seeds[-2], B))
    for (pi, c, st, r, rev), ra, rb in zip(t2, resA, resB):
        ctx.count(evaluations=2, states=2, transitions=2, traces=2)
        if "error" in ra or "error" in rb:
            raise HarnessError("second-process run failed: %s %s" % (ra.get("error"), rb.get("error")))
        va = {tuple(map(str, cc)): o for cc, (o, b) in zip(c, ra["results"])}
        for cc, (o, b) in zip(reversed(c), rb["results"]):
            if b:
                ctx.violation("%s|second-process-recomputes" % progs[pi][0],
                              "process B (seed %s, reversed definition order) ran bodies %s for %s%s of unchanged program %s on the store filled by process A (seed %s)"
                              % (seeds[-2], b, cc[0], tuple(cc[1]), progs[pi][0], seeds[1]), {"program": pi, "call": cc})
                break
            if o != va[tuple(map(str, cc))]:
                ctx.violation("%s|second-process-value" % progs[pi][0], "process B got %r, A got %r" % (o, va[tuple(map(str, cc))]),
                              {"program": pi, "call": cc})
                break
    ctx.sample({"program": progs[-2][0], "a.py": progen.render(progs[-2][1])["a.py"][:1200]})
    ctx.sample({"seed": seeds[0], "task": tasks[0]})
    rm(top)


def replay(ctx, art):
    print("replay for C03 = re-run the check (the artefact lists the versions per seed/order): ", art["artefact"])
    ctx2 = type(ctx)("C03", "quick")
    run(ctx2)
    return 1 if ctx2._viol else 0

"""Partition chains for C17: part(level, specs) builds its own keys and declares
part(level - 1, specs) as merge parent. specs[level] = {"keys": [...], "kind": "mem" | "disk"}."""
import sys

import pandas as pd

import twosigma.memento as m
from twosigma.memento.partition import InMemoryPartition
from twosigma.memento.storage_filesystem import OnDiskPartition


def value(level, key):
    if key in ("e", "f"):  # two keys holding equal content, at every level (one stored object behind several entries)
        return "same-content"
    if key in ("g", "h"):
        return None
    if key == "a":
        return level * 10 + 1
    if key == "b":
        return None if level == 1 else "b-at-%d" % level
    if level % 2:
        return pd.DataFrame({"lvl": [level], "k": [key]})
    if key == "c" and level == 0:
        return InMemoryPartition({"inner": "nested-at-%d" % level, "n": 7})  # a value that is itself a partition
    return [level, key]


def build(level, specs):
    """The partition of one level; its parent comes from a memoized call, or - when the level below is marked
    "unstored" - is built right here in memory and has never been serialized."""
    own = specs[level]
    data = {k: value(level, k) for k in own["keys"]}
    if own["kind"] == "disk":
        p = OnDiskPartition()
        for k, v in data.items():
            p[k] = v
        if own.get("reassign") and data:  # the first key is assigned once more (the same value)
            k0 = next(iter(data))
            p[k0] = value(level, k0)
    elif own["kind"] == "ddict":  # an in-memory partition over a dict subclass with a default factory
        import collections

        dd = collections.defaultdict(list)
        dd.update(data)
        p = InMemoryPartition(dd)
    else:
        p = InMemoryPartition(data)
    if own.get("peek"):  # the function looks at the keys it has staged so far, before it declares the parent
        p.list_keys()
    if level > 0:
        p._merge_parent = build(level - 1, specs) if specs[level - 1].get("unstored") else part(level - 1, specs)
    return p


@m.memento_function(cluster="vfc", version="1")
def part(level, specs):
    sys.audit("vf.body", "part", level)
    p = build(level, specs)
    if specs[level].get("override"):  # every level of the chain is stored under ONE shared key override
        from twosigma.memento.result import KeyOverrideResult

        return KeyOverrideResult(p, "pk/shared")
    return p


@m.memento_function(cluster="vfc", version="1")
def extend(specs):
    """Takes the (on-disk staged) partition of level 0 as returned by the memoized call - possibly the object the memory
    cache holds, already serialized once -, replaces one entry, adds one, and returns it."""
    sys.audit("vf.body", "extend", 0)
    p = part(0, specs)
    p["b"] = "replaced-b"
    p["z"] = ["added", 1]
    return p


@m.memento_function(cluster="vfc", version="1")
def through(level, specs):
    """Hands on, unchanged, the partition another memoized call returned."""
    sys.audit("vf.body", "through", level)
    return part(level, specs)

#!/usr/bin/env python3
"""Validate MANIFEST.json and evidence/*.json against the given schemas (run with python3-vt)."""
import glob
import json
import sys

import jsonschema

ok = True
man = json.load(open("/verif/MANIFEST.json"))
try:
    jsonschema.validate(man, json.load(open("/root/.vp/MANIFEST.schema.json")))
except jsonschema.ValidationError as e:
    ok = False
    print("MANIFEST:", e.message)
sch = json.load(open("/root/.vp/EVIDENCE.schema.json"))
claimed = {c["property_id"]: c for c in man["checks"]}
for pid, c in claimed.items():
    p = c["evidence_file"]
    try:
        ev = json.load(open(p))
        jsonschema.validate(ev, sch)
        if ev["level"] != c["level_claimed"]["category"]:
            ok = False
            print(p, "level mismatch", ev["level"], c["level_claimed"]["category"])
    except FileNotFoundError:
        ok = False
        print(p, "missing")
    except jsonschema.ValidationError as e:
        ok = False
        print(p, e.message)
props = [json.loads(l)["id"] for l in open("/verif/properties.jsonl")]
na = {x["property_id"] for x in man.get("not_applicable", [])}
for p in props:
    if (p in claimed) == (p in na):
        ok = False
        print(p, "must be exactly one of claimed / not_applicable")
print("valid" if ok else "INVALID")
sys.exit(0 if ok else 1)

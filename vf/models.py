"""Reference models - deliberately boring.  ref_arg_hash is written from the ArgumentHasher
docstring (documented cross-language algorithm), independently of the implementation."""
import datetime
import hashlib
import json


def _iso_dt(d: datetime.datetime) -> str:
    s = "%04d-%02d-%02dT%02d:%02d:%02d" % (d.year, d.month, d.day, d.hour, d.minute, d.second)
    if d.microsecond:
        s += ".%06d" % d.microsecond
    off = d.utcoffset()
    if off is not None:
        secs = int(off.total_seconds())
        sign = "+" if secs >= 0 else "-"
        secs = abs(secs)
        s += "%s%02d:%02d" % (sign, secs // 3600, (secs % 3600) // 60)
        if secs % 60:
            s += ":%02d" % (secs % 60)
    return s


def ref_encode(v, fn_info=None):
    """Documented JSON-friendly encoding of an argument value."""
    if v is None or isinstance(v, (bool, str, int, float)):
        return v
    if isinstance(v, datetime.datetime):
        return {"_mementoType": "datetime", "iso8601": _iso_dt(v)}
    if isinstance(v, datetime.date):
        return {"_mementoType": "date", "iso8601": "%04d-%02d-%02d" % (v.year, v.month, v.day)}
    if isinstance(v, list):
        return [ref_encode(x, fn_info) for x in v]
    if isinstance(v, dict):
        return {k: ref_encode(x, fn_info) for k, x in v.items()}
    if fn_info is not None:
        info = fn_info(v)  # (qualified name, partial args list or None, partial kwargs, parameter names)
        if info is not None:
            qn, pargs, pkw, names = info
            return {"_mementoType": "FunctionReference", "qualifiedName": qn,
                    "partialArgs": ref_encode(pargs, fn_info) if pargs else None,
                    "partialKwargs": ref_encode(pkw, fn_info), "parameterNames": names}
    raise ValueError("unsupported %r" % (v,))


def ref_arg_hash(effective_kwargs: dict, context_args=None, fn_info=None) -> str:
    d = dict(effective_kwargs)
    if context_args:
        d["_memento_context_args"] = context_args
    text = json.dumps(ref_encode(d, fn_info), sort_keys=True, separators=(",", ":"))
    return hashlib.sha256(text.encode("utf-8")).hexdigest()

"""C11 - the JSON metadata codec round-trips and keeps its cross-language wire format.

Bounded-exhaustive enumeration of mementos (arguments over the argument alphabet to depth 2,
function references with partial arguments, invocation / resource lists, content keys, every
result type, runtimes, times, runners, correlation ids); each one is encoded with the real
codec, dumped to text, parsed with a strict JSON parser, validated against the pinned
structure of the wire format, decoded, and compared field by field; the argument hash is
recomputed from the decoded arguments.
"""
import datetime
import itertools
import json
import math
import os

from ..core import pmap
from .. import values
from . import c04

ARG_TYPES = {"null", "boolean", "string", "number", "list_result", "dictionary", "date", "timestamp",
             "twosigma.memento.FunctionReference"}


class NotPlainJson(ValueError):
    pass


def strict_loads(text):
    def bad(tok):
        raise NotPlainJson(tok)

    return json.loads(text, parse_constant=bad)


def check_arg(a, path):
    if not isinstance(a, dict) or "type" not in a or not set(a) <= {"type", "value"}:
        return "%s: argument is not a {type[, value]} object: %r" % (path, a)
    t = a["type"]
    if t not in ARG_TYPES:
        return "%s: argument type %r is not in the documented set" % (path, t)
    if t == "null":
        return None if "value" not in a else "%s: null carries a value" % path
    if "value" not in a:
        return "%s: %s without value" % (path, t)
    v = a["value"]
    if t == "list_result":
        if not isinstance(v, list):
            return "%s: list value is %r" % (path, type(v))
        for i, x in enumerate(v):
            e = check_arg(x, "%s[%d]" % (path, i))
            if e:
                return e
    elif t == "dictionary":
        if not isinstance(v, dict):
            return "%s: dictionary value is %r" % (path, type(v))
        for k, x in v.items():
            e = check_arg(x, "%s.%s" % (path, k))
            if e:
                return e
    elif t == "twosigma.memento.FunctionReference":
        return check_fn_ref(v, path)
    elif t == "boolean" and not isinstance(v, bool):
        return "%s: boolean value %r" % (path, v)
    elif t == "string" and not isinstance(v, str):
        return "%s: string value %r" % (path, v)
    elif t == "number" and (isinstance(v, bool) or not isinstance(v, (int, float))):
        return "%s: number value %r" % (path, v)
    elif t in ("date", "timestamp"):
        import re

        if not isinstance(v, str):
            return "%s: %s value %r" % (path, t, v)
        # a date is the day alone, a timestamp carries a time of day (readers tell them apart by the type, not by the text)
        if t == "date" and not re.match(r"^\d{4}-\d{2}-\d{2}$", v):
            return "%s: date value %r is not a plain day" % (path, v)
        if t == "timestamp" and not re.match(r"^\d{4}-\d{2}-\d{2}T\d{2}:\d{2}", v):
            return "%s: timestamp value %r has no time of day" % (path, v)
    return None


def ref_tree(v):
    """Type tags a boring reference encoder gives the value (None where it has no opinion)."""
    from twosigma.memento.reference import FunctionReference
    from twosigma.memento.types import MementoFunctionType

    if v is None:
        return "null"
    if isinstance(v, bool):
        return "boolean"
    if isinstance(v, str):
        return "string"
    if isinstance(v, (int, float)):
        return "number"
    if isinstance(v, datetime.datetime):
        return "timestamp"
    if isinstance(v, datetime.date):
        return "date"
    if isinstance(v, (MementoFunctionType, FunctionReference)):
        return "twosigma.memento.FunctionReference"
    if isinstance(v, (list, tuple)):
        return ["list_result", [ref_tree(x) for x in v]]
    if isinstance(v, dict) and all(isinstance(k, str) for k in v):
        return ["dictionary", {k: ref_tree(x) for k, x in v.items()}]
    return None


def doc_tree(a):
    t = a.get("type")
    if t == "list_result":
        return [t, [doc_tree(x) for x in a["value"]]]
    if t == "dictionary":
        return [t, {k: doc_tree(x) for k, x in a["value"].items()}]
    return t


def tree_mismatch(want, got, path):
    if want is None:
        return None
    if isinstance(want, list):
        if not isinstance(got, list) or got[0] != want[0]:
            return "%s: emitted as %r, the value is a %s" % (path, got if not isinstance(got, list) else got[0], want[0])
        if want[0] == "list_result":
            if len(want[1]) != len(got[1]):
                return "%s: %d elements emitted for %d" % (path, len(got[1]), len(want[1]))
            for i, (w, g) in enumerate(zip(want[1], got[1])):
                e = tree_mismatch(w, g, "%s[%d]" % (path, i))
                if e:
                    return e
        else:
            if set(want[1]) != set(got[1]):
                return "%s: keys %s emitted for %s" % (path, sorted(got[1]), sorted(want[1]))
            for k in want[1]:
                e = tree_mismatch(want[1][k], got[1][k], "%s.%s" % (path, k))
                if e:
                    return e
        return None
    if got != want:
        return "%s: emitted with type %r, the value is a %s" % (path, got if not isinstance(got, list) else got[0], want)
    return None


def check_fn_ref(r, path):
    if not isinstance(r, dict) or set(r) != {"qualifiedName", "partialArgs", "partialKwargs", "parameterNames"}:
        return "%s: function reference fields %s" % (path, sorted(r) if isinstance(r, dict) else r)
    for i, x in enumerate(r["partialArgs"] or []):
        e = check_arg(x, "%s.partialArgs[%d]" % (path, i))
        if e:
            return e
    for k, x in (r["partialKwargs"] or {}).items():
        e = check_arg(x, "%s.partialKwargs.%s" % (path, k))
        if e:
            return e
    return None


def check_frwa(d, path):
    if not isinstance(d, dict) or set(d) != {"fnReference", "args", "kwargs", "contextArgs"}:
        return "%s: fields %s" % (path, sorted(d) if isinstance(d, dict) else d)
    e = check_fn_ref(d["fnReference"], path + ".fnReference")
    if e:
        return e
    for i, x in enumerate(d["args"] or []):
        e = check_arg(x, "%s.args[%d]" % (path, i))
        if e:
            return e
    for fld in ("kwargs", "contextArgs"):
        for k, x in (d[fld] or {}).items():
            e = check_arg(x, "%s.%s.%s" % (path, fld, k))
            if e:
                return e
    return None


def check_wire(doc):
    if set(doc) != {"time", "invocationMetadata", "functionDependencies", "runner", "correlationId", "contentKey"}:
        return "memento fields %s" % sorted(doc)
    im = doc["invocationMetadata"]
    if set(im) != {"fnReferenceWithArgs", "invocations", "resources", "runtimeSeconds", "resultType"}:
        return "invocationMetadata fields %s" % sorted(im)
    e = check_frwa(im["fnReferenceWithArgs"], "fnReferenceWithArgs")
    if e:
        return e
    for i, x in enumerate(im["invocations"] or []):
        e = check_frwa(x, "invocations[%d]" % i)
        if e:
            return e
    for i, x in enumerate(im["resources"] or []):
        if set(x) != {"resourceType", "url", "version"}:
            return "resources[%d] fields %s" % (i, sorted(x))
    for i, x in enumerate(doc["functionDependencies"] or []):
        e = check_fn_ref(x, "functionDependencies[%d]" % i)
        if e:
            return e
    if not isinstance(im["runtimeSeconds"], (int, float)) or not isinstance(im["resultType"], str) or not isinstance(doc["time"], str):
        return "scalar field types"
    if doc["contentKey"] is not None and not isinstance(doc["contentKey"], str):
        return "contentKey %r" % (doc["contentKey"],)
    return None


def same_time(a, b):
    return a == b and (a.tzinfo is None) == (b.tzinfo is None) if (a.tzinfo is None) == (b.tzinfo is None) else False


def same_ref(a, b):
    return (a.qualified_name == b.qualified_name and c04.same_received(list(a.partial_args), list(b.partial_args))
            and c04.same_received(dict(a.partial_kwargs or {}), dict(b.partial_kwargs or {})) and a.parameter_names == b.parameter_names)


def same_frwa(a, b):
    return (same_ref(a.fn_reference, b.fn_reference) and c04.same_received(list(a.args), list(b.args))
            and c04.same_received(a.kwargs, b.kwargs) and c04.same_received(a.context_args, b.context_args) and a.arg_hash == b.arg_hash)


def memento_case(spec):
    from twosigma.memento import Memento, InvocationMetadata
    from twosigma.memento.metadata import ResultType
    from twosigma.memento.resource import ResourceHandle
    from twosigma.memento.serialization import MementoCodec
    from twosigma.memento.types import VersionedDataSourceKey
    from ..fixtures import c04fx as fx

    out = {"evaluations": 1, "states": 1, "transitions": 1, "traces": 1, "violations": [], "outcomes": []}
    allv = dict(values.arg_atoms() + values.containers(values.arg_atoms(), 2) + c04.fn_atoms())
    (fname, partial), argnames, kwnames, ctxnames, ninv, nres, ckey, rtype, runtime, tkind, runner, cid = spec
    f = getattr(fx, fname) if fname != "Outer.Inner.sfn" else fx.Outer.Inner.sfn
    if partial == "pos":
        f = f.partial(allv["'é'"])
    elif partial == "kw":
        f = f.partial(k=allv["dt+0530"]) if fname == "fk" else f.partial(b=allv["[nan]"] if "[nan]" in allv else 1)
    ctx = {k: allv[v] for k, v in ctxnames} or None
    art = {"spec": spec}
    try:
        fra = f.fn_reference().with_args(*[allv[n] for n in argnames], **{k: allv[v] for k, v in kwnames}, _memento_context_args=ctx)
    except Exception as e:
        out["violations"].append(("construct|%s" % type(e).__name__, "cannot build the reference: %r" % (e,), art))
        return out
    want_tree = {"args": [ref_tree(allv[n]) for n in argnames], "kwargs": {k: ref_tree(allv[v]) for k, v in kwnames},
                 "contextArgs": {k: ref_tree(allv[v]) for k, v in ctxnames}}
    # the caller goes on using (and changing) the lists / dicts it passed: what is recorded is a snapshot
    for nme in list(argnames) + [v for _, v in kwnames] + [v for _, v in ctxnames]:
        if isinstance(allv[nme], list):
            allv[nme].append("changed-by-the-caller-afterwards")
        elif isinstance(allv[nme], dict):
            allv[nme]["changed-by-the-caller-afterwards"] = 1
    invs = [fx.g.fn_reference().with_args(i % 2, q=allv["dt-utc"]) for i in range(ninv)]  # ninv == 3: the third repeats the first
    if ninv == 2:
        invs[1] = fx.g.partial(fx.f1).fn_reference().with_args(q=[allv["date"], {"z": allv["nan"]}] if spec[1] and "nan" in spec[1] else [allv["date"]])
    if ninv == 5:
        invs = [fx.Outer.Inner.sfn.fn_reference().with_args(1), fx.Outer.Inner.sfn.partial(3).fn_reference().with_args(b=4), fx.g.fn_reference().with_args(0)]
    if ninv == 4:
        # invocations of a version of g that no longer exists (decodes to an unbound external reference): positional
        # and keyword arguments - the parameter names travel in the document
        from twosigma.memento.reference import FunctionReference

        gone = FunctionReference(fx.g, cluster_name="vfc", version="gone-version")
        invs = [gone.with_args(1, 2, k=allv["dt-utc"]), gone.with_args(p=3), fx.g.fn_reference().with_args(0)]
    ress = [ResourceHandle("file", "file:///tmp/é%d" % i, "v%d" % i) for i in range(nres)]
    times = {"utc": datetime.datetime(2021, 3, 4, 5, 6, 7, 890, tzinfo=datetime.timezone.utc),
             "+0530": datetime.datetime(2021, 3, 4, 5, 6, 7, tzinfo=values.P0530),
             "naive": datetime.datetime(2021, 3, 4, 5, 6, 7)}
    ck = {"none": None, "plain": VersionedDataSourceKey("c/abc", "u-1"), "hash-in-key": VersionedDataSourceKey("over/ride#1/x#y", "u-2"),
          "empty-version": VersionedDataSourceKey("k1", "")}[ckey]
    deps = {fra.fn_reference} | {i.fn_reference for i in invs}
    m0 = Memento(time=times[tkind],
                 invocation_metadata=InvocationMetadata(fn_reference_with_args=fra, invocations=invs, resources=ress,
                                                        runtime=datetime.timedelta(seconds=runtime), result_type=ResultType[rtype]),
                 function_dependencies=deps, runner=runner, correlation_id=cid, content_key=ck)
    vclass = c04._vclass(tuple((None, n) for n in argnames) + tuple(kwnames) + tuple(ctxnames))
    try:
        doc = MementoCodec.encode_memento(m0)
        text = json.dumps(doc)
    except Exception as e:
        out["violations"].append(("encode|%s|%s" % (type(e).__name__, vclass), "encode raised %r" % (e,), art))
        return out
    try:
        parsed = strict_loads(text)
        json.dumps(doc, allow_nan=False)
    except (NotPlainJson, ValueError) as e:
        tok = "NaN|Infinity" if isinstance(e, NotPlainJson) or "Out of range" in str(e) else str(e)[:30]
        out["violations"].append(("plain-json|float-token:%s" % tok,
                                  "the emitted document is not plain JSON: bare token %s (argument values %s)" % (e, vclass), art))
        parsed = json.loads(text)
    e = check_wire(parsed)
    if e:
        out["violations"].append(("wire-format|%s" % e.split(":")[0][:50], "wire format: %s" % e, art))
        return out
    top = parsed["invocationMetadata"]["fnReferenceWithArgs"]
    npart = len(top["args"] or []) - len(want_tree["args"])  # partial arguments come first
    e = None
    for i, w in enumerate(want_tree["args"]):
        e = e or tree_mismatch(w, doc_tree(top["args"][npart + i]), "args[%d]" % i)
    for fld in ("kwargs", "contextArgs"):
        for k, w in want_tree[fld].items():
            if k in (top[fld] or {}):
                e = e or tree_mismatch(w, doc_tree(top[fld][k]), "%s.%s" % (fld, k))
            else:
                e = e or "%s.%s is missing from the document" % (fld, k)
    if e:
        out["violations"].append(("wire-format|type-of-value|%s" % e.split(": ", 1)[1][:40], "wire format: %s" % e, art))
        return out
    try:
        m1 = MementoCodec.decode_memento(json.loads(text))
    except Exception as ex:
        out["violations"].append(("decode|%s|%s" % (type(ex).__name__, vclass), "decode raised %r" % (ex,), art))
        return out
    a, b = m0.invocation_metadata, m1.invocation_metadata
    diffs = []
    if not same_time(m0.time, m1.time):
        diffs.append("time %r -> %r" % (m0.time, m1.time))
    if not same_frwa(a.fn_reference_with_args, b.fn_reference_with_args):
        diffs.append("call reference/arguments/arg-hash (%s -> %s)" % (a.fn_reference_with_args.arg_hash[:8], b.fn_reference_with_args.arg_hash[:8]))
    if len(a.invocations) != len(b.invocations) or not all(same_frwa(x, y) for x, y in zip(a.invocations, b.invocations)):
        diffs.append("invocations")
    if a.resources != b.resources:
        diffs.append("resources")
    if a.runtime != b.runtime:
        diffs.append("runtime %r -> %r" % (a.runtime, b.runtime))
    if a.result_type != b.result_type:
        diffs.append("result type")
    # the dependency set holds references: two partial applications of one function are two members
    if len(m0.function_dependencies) != len(m1.function_dependencies) or not all(
            any(same_ref(d, e) and (d.external == e.external or ninv == 4) for e in m1.function_dependencies) for d in m0.function_dependencies):
        diffs.append("function dependencies")
    # (ninv == 4 builds references to a version that does not exist: those legitimately come back as stubs)
    if ninv != 4 and not all(x.fn_reference.external == y.fn_reference.external for x, y in zip([a.fn_reference_with_args] + list(a.invocations), [b.fn_reference_with_args] + list(b.invocations))):
        diffs.append("a reference to an existing function came back as an external stub (or the reverse)")
    if m0.runner != m1.runner or m0.correlation_id != m1.correlation_id:
        diffs.append("runner/correlation id")
    if m0.content_key != m1.content_key:
        diffs.append("content key %r -> %r" % (m0.content_key, m1.content_key))
    if diffs:
        out["violations"].append(("round-trip|%s|%s" % (diffs[0].split(" ")[0], vclass if "call" in diffs[0] else ckey),
                                  "decode(encode(m)) differs: %s" % "; ".join(diffs), art))
    out["outcomes"].append(text[:40] + str(hash(text)))
    return out


def specs(tier):
    allv = values.arg_atoms() + values.containers(values.arg_atoms(), 2 if tier == "thorough" else 1) + c04.fn_atoms()
    names = [n for n, _ in allv]
    base = (("f1", None), (), (), (), 0, 0, "plain", "string", 1.5, "utc", {"type": "local"}, "cid_1")
    out = []
    for n in names:  # every value as positional arg, kwarg, context arg, partial arg
        out.append(base[:1] + ((n,), (), ()) + base[4:])
        out.append((("fkw", None), ("1",), (("extra", n),), ()) + base[4:])
        out.append((("f1", None), ("1",), (), (("ctx", n),)) + base[4:])
    # a function in a class nested in another class, as the called function and as the function of an invocation
    out.append((("Outer.Inner.sfn", None), ("1",), (), ()) + base[4:])
    out.append((("Outer.Inner.sfn", None), ("1", "'a'"), (), (), 5, 0, "plain", "string", 1.5, "utc", {"type": "local"}, "cid_1"))
    from twosigma.memento.metadata import ResultType

    rts = [r.name for r in ResultType if r.name != "memento_function"]
    for (fp, ninv, nres, ck, rt, runtime, tk, runner, cid) in itertools.product(
            [("f2", None), ("f2", "pos"), ("fk", "kw")], (0, 1, 2, 3, 4), (0, 2), ("none", "plain", "hash-in-key", "empty-version"),
            rts if tier == "thorough" else ("null", "exception", "partition"), (0, 1e-6, 90061.5), ("utc", "+0530", "naive"),
            ({"type": "local"}, {}), ("cid_1", "çid-é")):
        if tier != "thorough" and (ninv, nres, runtime, tk, cid) not in {(0, 0, 0, "utc", "cid_1"), (1, 2, 1e-6, "+0530", "çid-é"), (2, 2, 90061.5, "naive", "cid_1"),
                                                                        (2, 0, 0, "+0530", "cid_1"), (1, 0, 90061.5, "utc", "çid-é"), (3, 0, 1e-6, "utc", "cid_1"), (3, 2, 0, "naive", "çid-é"), (4, 0, 0, "utc", "cid_1"), (4, 2, 1e-6, "+0530", "çid-é")}:
            continue
        args = ("1",) if fp == ("f2", "pos") else ("1", "'a'") if fp[0] == "f2" else ("1",)
        out.append((fp, args, (), (), ninv, nres, ck, rt, runtime, tk, runner, cid))
    return out


def _first_diff(a, b, p=""):
    if isinstance(a, dict) and isinstance(b, dict):
        for k in sorted(set(a) | set(b)):
            r = _first_diff(a.get(k), b.get(k), p + "." + k)
            if r:
                return r
        return None
    if isinstance(a, list) and isinstance(b, list) and len(a) == len(b):
        for i, (x, y) in enumerate(zip(a, b)):
            r = _first_diff(x, y, p + "[%d]" % i)
            if r:
                return r
        return None
    return None if a == b else (p, a, b)


def runner_documents(_):
    """Documents actually written by the runner: real calls (nested invocations, batches, failures,
    resources, partial / context arguments) on a filesystem store; every *.memento.json found on disk
    goes through the same strict-JSON / wire-structure / decode checks."""
    import os

    import twosigma.memento as m
    from twosigma.memento.serialization import MementoCodec
    from twosigma.memento.storage_filesystem import FilesystemStorageBackend
    from ..core import scratch_dir, rm
    from ..fixtures import c10fx, c04fx

    out = {"evaluations": 0, "states": 0, "transitions": 0, "traces": 0, "violations": [], "outcomes": []}
    top = scratch_dir("c11d")
    try:
        st = FilesystemStorageBackend(path=os.path.join(top, "d"))
        m.Environment.set(m.Environment(name="e", base_dir=top, repos=[m.ConfigurationRepository(name="r", clusters={"vfc": m.FunctionCluster(name="vfc", storage=st)})]))
        plans = [[["c", 1, [["r", "u1"]]], ["b", 2, [[], [["raise"]], []]], ["x", 3, [["raise"]]]],
                 [["cc", 1, [["c", 3, []]]], ["r", "u0"]],
                 [["ctx", 1, [["ctx", 2, [], {"k": 3}]], None]]]
        for p in plans:
            try:
                c10fx.n0(p)
            except Exception:
                pass
        c10fx.n0.with_context_args({"k": 1, "j": c10fx.n3})(plans[2])
        allv = dict(values.arg_atoms())
        c04fx.f2.partial(allv["dt+0530"])("é")
        c04fx.fkw(1, extra=[allv["date"], {"z": c04fx.g.partial(1)}])
        c04fx.fk.partial(k=allv["dt-naive-us"])(0.5)
        for dp, dn, fn in os.walk(os.path.join(top, "d", "m")):
            if ".versions" not in dp:
                continue
            for f in fn:
                if not f.endswith(".memento.json"):
                    continue
                out["evaluations"] += 1
                out["states"] += 1
                out["transitions"] += 1
                out["traces"] += 1
                text = open(os.path.join(dp, f)).read()
                art = {"runner_document": text[:2000]}
                try:
                    doc = strict_loads(text)
                except (NotPlainJson, ValueError) as e:
                    out["violations"].append(("runner-doc|plain-json", "a memento written by the runner is not plain JSON: %s" % e, art))
                    continue
                e = check_wire(doc)
                if e:
                    out["violations"].append(("runner-doc|wire-format|%s" % e.split(":")[0][:50], "memento written by the runner: %s" % e, art))
                    continue
                try:
                    mm = MementoCodec.decode_memento(json.loads(text))
                    again = json.dumps(MementoCodec.encode_memento(mm))
                    d1, d2 = json.loads(text), json.loads(again)
                    # function dependencies are a set: compare as such
                    for dd in (d1, d2):
                        dd["functionDependencies"] = sorted(dd["functionDependencies"] or [], key=lambda r: json.dumps(r, sort_keys=True))
                    if d1 != d2:
                        where = _first_diff(d1, d2)
                        out["violations"].append(("runner-doc|re-encode-differs|%s" % where[0].split("[")[0].split(".")[-1],
                                                  "decode then encode of a stored memento changes the document at %s: %r -> %r" % where, art))
                except Exception as ex:
                    out["violations"].append(("runner-doc|decode-raised|%s" % type(ex).__name__, "decoding a stored memento raised %r" % (ex,), art))
                out["outcomes"].append(str(hash(text)))
    finally:
        rm(top)
    return out


RV_SRC = '''
import twosigma.memento as m

@m.memento_function(cluster="vfc")
def leaf(x):
    return x + %d

@m.memento_function(cluster="vfc")
def caller(x, fn=None):
    return leaf(x) * 2
'''


def _rv_child(root, hist):
    """Decoding in a process in which functions get new versions: after every event every stored document is decoded. A
    reference to the CURRENT version of a function decodes to the live function (equal to fn_reference(), not a stub), a
    reference to a version that is gone decodes to an external stub; and decode -> encode gives the document back."""
    import importlib
    import sys

    import twosigma.memento as m
    from twosigma.memento.serialization import MementoCodec
    from .c15 import mk_backend, use

    os.makedirs(os.path.join(root, "vfrv"))
    open(os.path.join(root, "vfrv", "__init__.py"), "w").close()
    n = [1]

    def write():
        with open(os.path.join(root, "vfrv", "lib.py"), "w") as f:
            f.write(RV_SRC % n[0])

    write()
    sys.path.insert(0, root)
    lib = importlib.import_module("vfrv.lib")
    use(mk_backend("fs", os.path.join(root, "s")))
    res = []
    for ev in hist:
        if ev == "call":
            lib.caller(1)
        elif ev == "call_fnarg":
            lib.caller(2, fn=lib.leaf)
        elif ev == "edit":
            n[0] += 1
            write()
            importlib.invalidate_caches()
            os.utime(os.path.join(root, "vfrv", "lib.py"), (n[0] * 1000, n[0] * 1000))
            lib = importlib.reload(lib)
        elif ev == "reopen":
            use(mk_backend("fs", os.path.join(root, "s")))
        cur = {f.fn_reference().qualified_name: f.fn_reference() for f in (lib.leaf, lib.caller)}
        bad = None
        for dp, dn, fns in os.walk(os.path.join(root, "s")):
            for fname in sorted(fns):
                if bad or not fname.endswith(".memento.json") or ".versions" not in dp:
                    continue
                text = open(os.path.join(dp, fname)).read()
                try:
                    mm = MementoCodec.decode_memento(json.loads(text))
                except Exception as e:
                    bad = ("decode-raised", "decoding a stored memento raised %r" % (e,))
                    continue
                refs = [mm.invocation_metadata.fn_reference_with_args.fn_reference] + [i.fn_reference for i in mm.invocation_metadata.invocations] \
                    + list(mm.function_dependencies)
                for a in list(mm.invocation_metadata.fn_reference_with_args.kwargs.values()):
                    if hasattr(a, "qualified_name"):
                        refs.append(a)
                for r in refs:
                    live = cur.get(r.qualified_name)
                    if live is not None and (r.external or r != live):
                        bad = ("current-version-decodes-as-stub", "%s is the current version but its decoded reference is external=%s, equal to fn_reference(): %s"
                               % (r.qualified_name, r.external, r == live))
                    elif live is None and not r.external:
                        bad = ("gone-version-decodes-as-live", "%s no longer exists but its decoded reference is not an external stub" % r.qualified_name)
                if bad:
                    continue
                d1, d2 = json.loads(text), MementoCodec.encode_memento(mm)
                d2 = json.loads(json.dumps(d2))
                for dd in (d1, d2):
                    dd["functionDependencies"] = sorted(dd["functionDependencies"] or [], key=lambda r: json.dumps(r, sort_keys=True))
                if d1 != d2:
                    where = _first_diff(d1, d2)
                    bad = ("re-encode-differs", "decode then encode of a stored memento changes the document at %s: %r -> %r" % where)
        res.append((ev, bad))
        if bad:
            break
    return res


def rv_case(hist):
    from .. import farm
    from ..core import HarnessError, scratch_dir, rm

    root = scratch_dir("c11rv")
    out = {"evaluations": 1, "states": 1, "transitions": len(hist), "traces": 1, "violations": [], "outcomes": ["rv:%s" % (hist,)]}
    try:
        res = farm.fork_call(_rv_child, root, hist)
    except farm.ChildFailed as e:
        raise HarnessError("re-version child failed for %s: %s" % (hist, e))
    finally:
        rm(root)
    for ev, bad in res:
        if bad:
            out["violations"].append(("reversioned-in-process|%s|%s" % (ev, bad[0]), bad[1] + "\nhistory: %s" % (list(hist),), {"rv": list(hist)}))
    return out


def run(ctx):
    ctx.rule = ("every value of the argument alphabet (depth %d) as positional / keyword / context argument; function references "
                "plain, with positional and keyword partials (incl. non-ASCII, aware datetime, nested function reference); x "
                "invocation lists 0..4 (incl. a repeated invocation and invocations of a version that no longer exists), resource lists 0/2, content keys none / plain / containing '#' / empty version, result types, "
                "runtimes 0 / 1e-6 / 90061.5, times UTC / +05:30 / naive, runner dicts, correlation ids; oracle: strict JSON, pinned "
                "wire structure, field-wise round trip, recomputed argument hash. distinct = distinct emitted documents."
                % (2 if ctx.tier == "thorough" else 1))
    sp = specs(ctx.tier)
    a = memento_case(sp[3])
    b = memento_case(sp[3])
    ctx.selfcheck("one memento round-trips identically twice", a["violations"] == b["violations"])
    chunks = pmap(memento_case, sp, chunksize=32)
    ctx.merge(chunks)
    rd = runner_documents(None)
    ctx.merge([rd])
    ctx.extra["runner_written_documents"] = rd["evaluations"]
    import itertools

    rvd = 5 if ctx.tier == "thorough" else 4
    rvh = [h for L in range(2, rvd + 1) for h in itertools.product(("call", "call_fnarg", "edit", "reopen"), repeat=L)
           if "edit" in h and h[0] != "reopen" and any(e.startswith("call") for e in h)]
    ctx.merge(pmap(rv_case, rvh, chunksize=4))
    ctx.extra["reversioned_in_process_histories"] = len(rvh)
    ctx.rule += (" Re-versioned in the running process: all histories to length %d over {call, call with a function-valued argument, edit + reload "
                 "(new version of both functions), new backend object}; after every event every stored document is decoded: references to "
                 "current versions decode to the live functions, references to versions that are gone to external stubs, decode -> encode "
                 "gives the document back." % rvd)
    ctx.sample({"spec": sp[0]})
    ctx.sample({"spec": sp[-1]})
    ctx.extra["mementos"] = len(sp)


def replay(ctx, art):
    if "rv" in art["artefact"]:
        r = rv_case(tuple(art["artefact"]["rv"]))
        for v in r["violations"]:
            print(v[0], "\n", v[1])
        print("REPLAY property=C11 result=%s" % bool(r["violations"]))
        return 1 if r["violations"] else 0
    spec = art["artefact"]["spec"]

    def tup(x):
        return tuple(tup(i) for i in x) if isinstance(x, list) else x

    spec = tup(spec)
    spec = spec[:10] + (art["artefact"]["spec"][10],) + spec[11:]
    r = memento_case(spec)
    for v in r["violations"]:
        print(v[0], "\n", v[1])
    print("REPLAY property=C11 result=%s" % bool(r["violations"]))
    return 1 if r["violations"] else 0

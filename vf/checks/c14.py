"""C14 - the static dependency closure is exact and calls outside it are refused.

All reference digraphs (no self loops) over N nodes x every assignment of kinds {memento with
automatic version, memento with explicit version, plain helper}, reference form per edge from
{bare name, module.attr, alias, decorator wrapper}: the reported transitive / direct
dependencies and dependency-graph links must equal graph reachability; every hidden dynamic
call u=>v (directly, or one real static call deeper) must raise UndeclaredDependencyError iff v
is outside the closure of the calling memento function and was not passed as an argument - for
every way of invoking u.
"""
import itertools
import os

from ..core import scratch_dir, rm, pmap, HarnessError
from .. import farm
from . import c09

preimport = c09.preimport  # the concurrent part runs under the controlled scheduler (vf/sched.py)

FORMS = ("bare", "modattr", "alias", "wrapper", "comp", "lambda", "partial", "modattr-local", "arg-of-chained-call")
KINDS = ("M", "E", "P")  # memento auto, memento explicit, plain


def ref_expr(j, form):
    return {"bare": "n%d" % j, "modattr": "selfmod.n%d" % j, "modattr-local": "selfmod.n%d" % j, "alias": "n%d_alias" % j,
            "wrapper": "n%d_w" % j}.get(form, "n%d" % j)


def call_expr(e, form):
    """The call of reference e in the syntactic position the form names."""
    if form == "comp":
        return "[%s(1, hid=hid, fnarg=fnarg) for _ in range(1)][0]" % e
    if form == "lambda":
        return "(lambda: %s(1, hid=hid, fnarg=fnarg))()" % e
    if form == "partial":
        return "functools.partial(%s, 1)(hid=hid, fnarg=fnarg)" % e
    if form == "arg-of-chained-call":  # named only inside the argument list of a call whose result is dereferenced
        return "list([%s(1, hid=hid, fnarg=fnarg)]).copy()[0]" % e
    return "%s(1, hid=hid, fnarg=fnarg)" % e


MODNAME = {"a": "vfg.a", "i": "vfg", "b": "vfg.b"}
# how module X refers to module Y
MODREF = {("a", "i"): "pkg", ("a", "b"): "b", ("i", "a"): "a", ("i", "b"): "b", ("b", "a"): "a", ("b", "i"): "pkg"}


def render(n, kinds, edges, forms, layout=None):
    """{file name: text}. layout[i] in {"a", "i", "b"}: node i lives in vfg/a.py, in the package's __init__.py or in
    the sibling module vfg/b.py (default: everything in a.py)."""
    layout = layout or "a" * n
    files = {}
    for mod in ("a", "i", "b"):
        nodes = [i for i in range(n) if layout[i] == mod]
        if not nodes and mod != "a" and mod != "i":
            continue
        out = ["import sys", "import functools", "import importlib", "import twosigma.memento as m", "selfmod = sys.modules[__name__]"]
        if mod == "a":
            out.append("import vfg as pkg")
            if "b" in layout:
                out.append("from . import b")
        if mod == "b":
            out += ["import vfg as pkg", "from . import a"]
        out += ["", "def passthru(f):", "    @functools.wraps(f)", "    def w(*_pa, **_pk):", "        return f(*_pa, **_pk)", "    return w", ""]
        for i in nodes:
            if kinds[i] == "M":
                out.append("@m.memento_function")
            elif kinds[i] == "E":
                out.append("@m.memento_function(version='1')")
            out.append("def n%d(x=1, hid=None, via=None, fnarg=None, then=None):" % i)
            out.append("    sys.audit('vf.body', 'n%d', x)" % i)
            succ = [j for (a_, j) in edges if a_ == i]
            if not succ:
                out.append("    pass")
            for j in succ:
                if layout[j] == mod:
                    e = ref_expr(j, forms[(i, j)])
                else:
                    e = "%s.n%d" % (MODREF[(mod, layout[j])], j)
                out.append("    if via == 'n%d':" % j)
                if forms[(i, j)] == "modattr-local" and layout[j] == mod:
                    # the result goes to a local variable named like the last component of the dotted reference
                    out.append("        n%d_alias = %s" % (j, call_expr("selfmod.n%d_alias" % j, "bare")))
                    out.append("        r = ['n%d', n%d_alias]" % (i, j))
                else:
                    out.append("        r = ['n%d', %s]" % (i, call_expr(e, forms[(i, j)])))
                # ... and afterwards, possibly, a hidden call of its own
                out.append("        if then is not None:")
                out.append("            r.append(getattr(importlib.import_module(then[0]), then[1])(0))")
                out.append("        return r")
            out.append("    if via is None and hid is not None and len(hid) > 2:")  # the hidden call made as a batch that collects failures
            out.append("        return ['n%d', getattr(importlib.import_module(hid[0]), hid[1]).call_batch([{'x': 0}], raise_first_exception=False)[0]]" % i)
            out.append("    if via is None and hid is not None:")
            out.append("        return ['n%d', getattr(importlib.import_module(hid[0]), hid[1])(0)]" % i)
            out.append("    if via is None and fnarg is not None:")
            out.append("        return ['n%d', fnarg(0)]" % i)
            out.append("    return ['n%d']" % i)
            out.append("")
        for i in nodes:
            out.append("n%d_alias = n%d" % (i, i))
            out.append("n%d_w = passthru(n%d)" % (i, i))
        if mod == "i" and layout.strip("i"):
            out.append("from . import a  # noqa (after the definitions: a imports this package)")
            if "b" in layout:
                out.append("from . import b  # noqa")
        if mod == "i" and not nodes:
            out = []
        files["__init__.py" if mod == "i" else mod + ".py"] = "\n".join(out) + "\n"
    return files


def reach(n, edges, src, through=None):
    """Nodes reachable from src by >= 1 edge; if through is given, interior nodes must satisfy it."""
    seen = set()
    todo = [j for (a, j) in edges if a == src]
    while todo:
        v = todo.pop()
        if v in seen:
            continue
        seen.add(v)
        if through is None or through(v):
            todo += [j for (a, j) in edges if a == v]
    return seen


def expected(n, kinds, edges):
    mem = [i for i in range(n) if kinds[i] != "P"]
    exp = {}
    for u in mem:
        closure = {v for v in reach(n, edges, u) if kinds[v] != "P" and v != u}
        direct = {j for (a, j) in edges if a == u and kinds[j] != "P" and j != u}
        links = set()
        for a in {u} | closure:
            for b in reach(n, edges, a, through=lambda v: kinds[v] == "P"):
                if kinds[b] != "P" and b != a:
                    links.add((a, b))
        exp[u] = (closure, direct, links)
    return exp


def _child(root, store, n, kinds, edges, layout=None):
    import importlib
    import sys

    from .. import audit

    audit.install()
    farm.set_env(store)
    sys.path.insert(0, root)
    layout = layout or "a" * n
    importlib.import_module("vfg.a")
    from twosigma.memento.exception import UndeclaredDependencyError  # noqa

    def node(i):
        return getattr(importlib.import_module(MODNAME[layout[i]]), "n%d" % i)

    def idx(f):
        return int(f.qualified_name_without_version.split(":n")[-1])

    obs = {}
    mem = [i for i in range(n) if kinds[i] != "P"]
    for u in mem:
        f = node(u)
        dg = f.dependencies()
        trans = sorted(idx(x) for x in dg.transitive_memento_fn_dependencies())
        direct = sorted(idx(x) for x in dg.direct_memento_fn_dependencies())
        df = dg.df()
        links = sorted((int(r.src.split(":n")[-1]), int(r.target.split(":n")[-1])) for r in df.itertuples())
        obs[u] = {"trans": trans, "direct": direct, "links": links}
    # runtime enforcement
    calls = []
    succ = {i: [j for (x, j) in edges if x == i] for i in range(n)}
    for u in mem:
        for v in mem:
            if v == u:
                continue
            for modifier in (None, "partial", "force_local", "ctx", "ignore"):
                calls.append((u, None, v, "hid", modifier))
            calls.append((u, None, v, "hid-batch", None))
            calls.append((u, None, v, "arg", None))
            calls.append((u, None, v, "arg", "force_local"))
        for w in succ[u]:
            for v in mem:
                if v == w:
                    continue
                calls.append((u, w, v, "hid", None))
                calls.append((u, w, v, "hid", "force_local"))
                # the callee makes the hidden call, then the caller makes the same hidden call itself (twice: the second
                # time the callee is served from the store)
                calls.append((u, w, v, "hid+then", None))
                calls.append((u, w, v, "hid+then", "again"))
    runtime = []
    for (u, w, v, how, modifier) in calls:
        f = node(u)
        if modifier == "partial":
            f = f.partial()
        elif modifier == "force_local":
            f = f.force_local()
        elif modifier == "ctx":
            f = f.with_context_args({"c": 1})
        elif modifier == "ignore":
            f = f.ignore_result()
        kw = {}
        if w is not None:
            kw["via"] = "n%d" % w
        if how == "hid-batch":
            kw["hid"] = [MODNAME[layout[v]], "n%d" % v, "batch"]
        elif how in ("hid", "hid+then"):
            kw["hid"] = [MODNAME[layout[v]], "n%d" % v]
            if how == "hid+then":
                kw["then"] = kw["hid"]
        else:
            kw["fnarg"] = node(v)
        try:
            # a distinct argument per way of invoking: every call is computed, none replayed
            f(20 if how == "hid+then" else 30 if how == "hid-batch" else 10 + [None, "partial", "force_local", "ctx", "ignore"].index(modifier), **kw)
            out = "ok"
        except UndeclaredDependencyError:
            out = "refused"
        except Exception as e:
            out = "exc:%s:%s" % (type(e).__name__, str(e)[:80])
        runtime.append(((u, w, v, how, modifier), out))
    return {"static": obs, "runtime": runtime}


def graph_case(args):
    n, kinds, edges, forms = args[:4]
    layout = args[4] if len(args) > 4 else None
    forms = dict(forms)
    top = scratch_dir("c14")
    out = {"evaluations": 1, "states": 1, "transitions": 0, "traces": 1, "violations": [], "outcomes": []}
    try:
        d = os.path.join(top, "vfg")
        os.makedirs(d)
        for fname, text in render(n, kinds, edges, forms, layout).items():
            with open(os.path.join(d, fname), "w") as f:
                f.write(text)
        try:
            res = farm.fork_call(_child, top, os.path.join(top, "store"), n, kinds, edges, layout)
        except farm.ChildFailed as e:
            out["violations"].append(("query-raised|%s" % str(e).splitlines()[0][:60],
                                      "querying the dependencies raised: %s" % str(e)[:600],
                                      {"n": n, "kinds": kinds, "edges": edges, "forms": sorted(forms.items())}))
            return out
        exp = expected(n, kinds, edges)
        art = {"n": n, "kinds": kinds, "edges": edges, "forms": sorted(forms.items()), "layout": layout}
        desc = "graph n=%d kinds=%s edges=%s forms=%s%s" % (n, kinds, edges, sorted(forms.items()), " layout=%s" % layout if layout else "")

        def shape(u, wrong, kindname):
            cyc = u in reach(n, edges, u)
            return "%s|caller=%s|%s%s%s" % (kindname, kinds[u], wrong, "|cycle-through-self" if cyc else "", "|layout" if layout else "")

        for u, (closure, direct, links) in exp.items():
            o = res["static"][u]
            out["transitions"] += 3
            if set(o["trans"]) != closure:
                extra, missing = set(o["trans"]) - closure, closure - set(o["trans"])
                out["violations"].append((shape(u, "extra" if extra else "missing", "transitive") +
                                          ("|self" if u in extra else "") +
                                          ("|behind:%s" % "".join(sorted({kinds[p] for p in _preds(edges, missing)})) if missing else ""),
                                          "transitive dependencies of n%d are %s, reachable memento functions are %s\n%s" % (u, o["trans"], sorted(closure), desc), art))
                break
            if set(o["direct"]) != direct:
                out["violations"].append((shape(u, "mismatch", "direct"),
                                          "direct dependencies of n%d are %s, memento functions named in its body are %s\n%s" % (u, o["direct"], sorted(direct), desc), art))
                break
            if set(map(tuple, o["links"])) != links:
                out["violations"].append((shape(u, "mismatch", "graph-links"),
                                          "dependency graph of n%d links %s, expected %s\n%s" % (u, o["links"], sorted(links), desc), art))
                break
        for (u, w, v, how, modifier), got in res["runtime"]:
            out["transitions"] += 1
            caller = u if (w is None or kinds[w] == "P") else w
            if how == "arg" or kinds[caller] == "E":
                want = "ok"
            else:
                want = "ok" if (v in exp[caller][0] or v == caller) else "refused"
            if how == "hid+then" and want == "ok" and kinds[u] != "E":
                # the caller's own hidden call is judged by the caller's closure, whatever its callees reached before
                want = "ok" if (v in exp[u][0] or v == u) else "refused"
            if got != want:
                sig = "runtime|%s|want=%s|got=%s|caller=%s%s%s" % (how, want, got.split(":")[0] + (":" + got.split(":")[1] if got.startswith("exc") else ""),
                                                                 kinds[caller], "|via=" + modifier if modifier else "",
                                                                 "|nested" if w is not None else "")
                if how == "hid+then":
                    sig += "|after-callee-made-the-same-call"
                if v == u and w is not None:
                    sig += "|callee-on-stack"
                if layout:
                    sig += "|layout"
                out["violations"].append((sig, "n%d%s %s-calling n%d%s: got %s, expected %s\n%s"
                                          % (u, " (via static call to n%d)" % w if w is not None else "", "hidden" if how.startswith("hid") else "argument",
                                             v, " invoked through %s" % modifier if modifier else "", got, want, desc), art))
                break
        out["outcomes"].append("%s|%s" % (kinds, sorted(edges)))
    finally:
        rm(top)
    return out


REBIND_SRC = """import sys
import twosigma.memento as m

%(decA)s
def A(x=1):
    sys.audit('vf.body', 'A', x)
    return ['A']

%(decB)s
def B(x=1):
    sys.audit('vf.body', 'B', x)
    return ['B']

t = A

def load(x):
    return t(x)

%(decM)s
def M(x=1, hid=None):
    sys.audit('vf.body', 'M', x)
    if hid is not None:
        return ['M', globals()[hid](0)]
    return ['M', %(ref)s(x)]
"""


def _rebind_child(root, store, decA, decB, decM="@m.memento_function", ref="t"):
    import importlib
    import sys

    from .. import audit
    from twosigma.memento.exception import UndeclaredDependencyError

    audit.install()
    farm.set_env(store)
    os.makedirs(os.path.join(root, "vfr"))
    open(os.path.join(root, "vfr", "__init__.py"), "w").close()
    open(os.path.join(root, "vfr", "a.py"), "w").write(REBIND_SRC % {"decA": decA, "decB": decB, "decM": decM, "ref": ref})
    sys.path.insert(0, root)
    a = importlib.import_module("vfr.a")
    obs = []
    n = [10]

    def look():
        dg = a.M.dependencies()
        o = {"trans": sorted(x.qualified_name_without_version.split(":")[-1] for x in dg.transitive_memento_fn_dependencies()),
             "direct": sorted(x.qualified_name_without_version.split(":")[-1] for x in dg.direct_memento_fn_dependencies()),
             "links": sorted((r.src.split(":")[-1].split("#")[0], r.target.split(":")[-1].split("#")[0]) for r in dg.df().itertuples())}
        for hid in ("A", "B"):
            n[0] += 1
            try:
                a.M(n[0], hid=hid)
                o["call-" + hid] = "ok"
            except UndeclaredDependencyError:
                o["call-" + hid] = "refused"
            except Exception as e:
                o["call-" + hid] = "exc:%s" % type(e).__name__
        return o

    obs.append(look())
    a.t = a.B  # the name now points at the other function
    obs.append(look())
    a.t = a.A
    obs.append(look())
    return obs


REDEF_SRC_HEAD = """import sys
import twosigma.memento as m

@m.memento_function
def OLD(x=1):
    return ['OLD']

@m.memento_function
def NEW(x=1):
    return ['NEW']

@m.memento_function
def F(x=1, hid=None):
    if hid is not None:
        return ['F', globals()[hid](0)]
    return ['F', G(x - 1)] if x > 0 else ['F']
"""
REDEF_G = """
@m.memento_function
def G(x=1, hid=None):
    if hid is not None:
        return ['G', globals()[hid](0)]
    return ['G', F(x - 1), %s(0)] if x > 0 else ['G']
"""


def _redef_cycle_child(root, store):
    import importlib
    import sys

    from .. import audit
    from twosigma.memento.exception import UndeclaredDependencyError

    audit.install()
    farm.set_env(store)
    os.makedirs(os.path.join(root, "vfc2"))
    open(os.path.join(root, "vfc2", "__init__.py"), "w").close()
    open(os.path.join(root, "vfc2", "a.py"), "w").write(REDEF_SRC_HEAD + REDEF_G % "OLD")
    sys.path.insert(0, root)
    a = importlib.import_module("vfc2.a")
    n = [10]

    def look():
        o = {}
        for fn in ("F", "G"):
            dg = getattr(a, fn).dependencies()
            o[fn + ".trans"] = sorted(x.qualified_name_without_version.split(":")[-1] for x in dg.transitive_memento_fn_dependencies())
        for hid in ("OLD", "NEW"):
            n[0] += 1
            try:
                a.G(n[0], hid=hid)
                o["G-calls-" + hid] = "ok"
            except UndeclaredDependencyError:
                o["G-calls-" + hid] = "refused"
            except Exception as e:
                o["G-calls-" + hid] = "exc:%s" % type(e).__name__
        if hasattr(a, "legacy_G"):
            # the superseded definition of G is still held under another name: it is not the G of F's closure any more
            n[0] += 1
            try:
                a.F(n[0], hid="legacy_G")
                o["F-calls-superseded-G"] = "ok"
            except UndeclaredDependencyError:
                o["F-calls-superseded-G"] = "refused"
            except Exception as e:
                o["F-calls-superseded-G"] = "exc:%s" % type(e).__name__
        return o

    obs = [look()]
    a.legacy_G = a.G
    # G is re-defined in the running process (the definition alone is executed again, as a notebook cell would): it now
    # names NEW instead of OLD. F <-> G stay on a cycle.
    src = "import sys\nimport twosigma.memento as m\n" + REDEF_G % "NEW"
    path = os.path.join(root, "redef_G.py")
    open(path, "w").write(src)
    exec(compile(src, path, "exec"), a.__dict__)
    obs.append(look())
    return obs


SAMENAME_SRC = """import sys
import twosigma.memento as m

@m.memento_function
def A(x=1):
    return ['A']

@m.memento_function
def B(x=1):
    return ['B']

@m.memento_function
def C(x=1):
    return ['C']

class Reader:
    @staticmethod
    def build(x):
        return A(x)

class Writer:
    @staticmethod
    def build(x):
        return B(x)

def build(x):
    return C(x)

@m.memento_function
def M(x=1):
    return ['M', Reader.build(x), Writer.build(x), build(x)]
"""


def _samename_child(root, store):
    import importlib
    import sys

    farm.set_env(store)
    os.makedirs(os.path.join(root, "vfs"))
    open(os.path.join(root, "vfs", "__init__.py"), "w").close()
    open(os.path.join(root, "vfs", "a.py"), "w").write(SAMENAME_SRC)
    sys.path.insert(0, root)
    a = importlib.import_module("vfs.a")
    dg = a.M.dependencies()
    o = {"trans": sorted(x.qualified_name_without_version.split(":")[-1] for x in dg.transitive_memento_fn_dependencies())}
    try:
        o["call"] = a.M(1)
    except Exception as e:
        o["call"] = "EXC:%s" % type(e).__name__
    return o


def samename_case(_):
    """Plain helpers that share their bare name (two static methods `build` of different classes and a module-level `build`),
    each leading to another memento function: all three are in the caller's closure and the call goes through."""
    top = scratch_dir("c14s")
    out = {"evaluations": 1, "states": 1, "transitions": 2, "traces": 1, "violations": [], "outcomes": ["same-name-helpers"]}
    try:
        try:
            o = farm.fork_call(_samename_child, top, os.path.join(top, "store"))
        except farm.ChildFailed as e:
            raise HarnessError("same-name child failed: %s" % e)
        want = {"trans": ["A", "B", "C"], "call": ["M", ["A"], ["B"], ["C"]]}
        if o != want:
            diff = sorted(x for x in want if o.get(x) != want[x])
            out["violations"].append(("same-name-helpers|differs:%s" % "+".join(diff),
                                      "M calls Reader.build -> A, Writer.build -> B, build -> C: observed %s, the reference graph gives %s" % ({x: o.get(x) for x in diff}, {x: want[x] for x in diff}),
                                      {"samename": True}))
    finally:
        rm(top)
    return out


def redef_cycle_case(_):
    top = scratch_dir("c14c")
    out = {"evaluations": 1, "states": 2, "transitions": 2, "traces": 1, "violations": [], "outcomes": ["redef-cycle"]}
    try:
        try:
            obs = farm.fork_call(_redef_cycle_child, top, os.path.join(top, "store"))
        except farm.ChildFailed as e:
            raise HarnessError("redefinition child failed: %s" % e)
        for k, (o, leaf) in enumerate(zip(obs, ("OLD", "NEW"))):
            other = "NEW" if leaf == "OLD" else "OLD"
            want = {"F.trans": sorted(["G", leaf]), "G.trans": sorted(["F", leaf]), "G-calls-" + leaf: "ok", "G-calls-" + other: "refused"}
            if k:
                want["F-calls-superseded-G"] = "refused"
            if o != want:
                diff = sorted(x for x in want if o.get(x) != want[x])
                out["violations"].append(("redefined-on-cycle|step:%d|differs:%s" % (k, "+".join(diff)),
                                          "F <-> G, G names %s%s: observed %s, the reference graph gives %s"
                                          % (leaf, " (G re-defined in the running process)" if k else "", {x: o.get(x) for x in diff}, {x: want[x] for x in diff}), {"redef_cycle": True}))
                break
    finally:
        rm(top)
    return out


def rebind_case(args):
    """A name in the body is re-pointed, in the running process, from one memento function to another: the reported
    closure and the run-time check must follow the reference graph of the moment."""
    decA, decB, label = args[:3]
    decM, ref = (args[3], args[4]) if len(args) > 3 else ("@m.memento_function", "t")
    label += ("|caller-with-declared-version" if "version" in decM else "") + ("|through-plain-helper" if ref != "t" else "")
    top = scratch_dir("c14r")
    out = {"evaluations": 1, "states": 3, "transitions": 3, "traces": 1, "violations": [], "outcomes": ["rebind|" + label]}
    try:
        try:
            obs = farm.fork_call(_rebind_child, top, os.path.join(top, "store"), decA, decB, decM, ref)
        except farm.ChildFailed as e:
            raise HarnessError("rebind child failed: %s" % e)
        for k, (o, tgt) in enumerate(zip(obs, ("A", "B", "A"))):
            other = "B" if tgt == "A" else "A"
            want = {"trans": [tgt], "direct": [tgt] if ref == "t" else [], "links": [("M", tgt)] if ref == "t" else [("M", "load"), ("load", tgt)],
                    "call-" + tgt: "ok", "call-" + other: "refused" if "version" not in decM else "ok"}
            if ref != "t":
                o = {x: y for x, y in o.items() if x not in ("direct", "links")}  # (how edges through plain helpers are drawn is covered by the graph cases)
                want = {x: y for x, y in want.items() if x not in ("direct", "links")}
            if o != want:
                diff = sorted(x for x in want if o.get(x) != want[x])
                out["violations"].append(("rebind|%s|step:%d|differs:%s" % (label, k, "+".join(diff)),
                                          "M refers to t; t = %s%s: observed %s, the reference graph gives %s" % (tgt, " (re-pointed in the running process)" if k else "", {x: o.get(x) for x in diff}, {x: want[x] for x in diff}),
                                          {"rebind": [decA, decB, args[2], decM, ref]}))
                break
    finally:
        rm(top)
    return out


def _preds(edges, targets):
    return {a for (a, j) in edges if j in targets}


def graphs(n, kinds_alphabet, sym=True):
    pairs = [(i, j) for i in range(n) for j in range(n) if i != j]
    seen = set()
    for kinds in itertools.product(kinds_alphabet, repeat=n):
        if "M" not in kinds:
            continue
        for mask in range(1 << len(pairs)):
            edges = tuple(p for b, p in enumerate(pairs) if mask >> b & 1)
            if sym:
                canon = min((tuple(kinds[p.index(i)] if False else kinds[i] for i in perm),) for perm in [tuple(range(n))])
                # canonical form under node relabelling
                best = None
                for perm in itertools.permutations(range(n)):
                    k2 = tuple(kinds[perm.index(i)] for i in range(n))
                    e2 = tuple(sorted((perm[a], perm[b]) for a, b in edges))
                    key = (k2, e2)
                    if best is None or key < best:
                        best = key
                if best in seen:
                    continue
                seen.add(best)
            yield kinds, edges


def run(ctx):
    thorough = ctx.tier == "thorough"
    ctx.rule = ("all digraphs without self loops over N nodes x all kind assignments over {memento auto, memento explicit, "
                "plain} with at least one auto memento node (N<=3 exhaustive; thorough: N=4 up to node relabelling), edge "
                "reference forms by covering rotation over {bare, module.attr, alias, wrapper, inside a comprehension, inside a lambda, "
                "through functools.partial, module.attr assigned to a local of the same name, inside the arguments of a call whose result is dereferenced} (all assignments for N=2); per "
                "graph: transitive / direct / graph links of every memento node vs reachability, and every hidden or "
                "argument-passed call u=>v and u->w=>v through every modifier vs the closure; graphs with N in {2,3} additionally with the "
                "nodes spread over a.py, the package __init__.py and a sibling module. distinct = graphs.")
    ctx.assumptions += ["a function is never its own dependency (self entries / self links are excluded)",
                        "a caller with an explicit version is exempt from the undeclared-dependency check (documented)"]
    tasks = []
    for n in (1, 2, 3) + ((4,) if thorough else ()):
        for kinds, edges in graphs(n, KINDS if n < 4 else ("M", "P"), sym=(n == 4)):
            if n == 2:
                for fs in itertools.product(FORMS, repeat=len(edges)):
                    tasks.append((n, kinds, edges, tuple(zip(edges, fs))))
            else:
                for rot in range(len(FORMS) if (n == 3 and thorough) else 1):
                    forms = tuple(((i, j), FORMS[(i + 2 * j + rot + len(edges)) % len(FORMS)]) for (i, j) in edges)
                    tasks.append((n, kinds, edges, forms))
    # the same graphs spread over the modules of one package: plain helpers in the package's __init__.py or in a sibling
    # module, memento functions other than the first in the sibling module (cross-module references are module.attr)
    lay = []
    for (n, kinds, edges, forms) in list(tasks):
        if n < 2 or n > 3 or not edges:
            continue
        if n == 3 and not thorough and len(edges) > 3:
            continue
        outs = set()
        if "P" in kinds:
            outs.add("".join("i" if k == "P" else "a" for k in kinds))
            outs.add("".join("b" if k == "P" else "a" for k in kinds))
        outs.add("a" + "b" * (n - 1))
        outs.add("i" + "a" * (n - 1))
        for layout in sorted(outs):
            if n == 2 and forms and any(f != "bare" for _, f in forms):
                continue  # forms only matter inside one module
            lay.append((n, kinds, edges, forms, layout))
    tasks += lay
    a = graph_case(tasks[len(tasks) // 2])
    b = graph_case(tasks[len(tasks) // 2])
    ctx.selfcheck("one graph gives identical observations twice", a["violations"] == b["violations"] and a["transitions"] == b["transitions"])
    if ctx.seed:
        import random

        random.Random(ctx.seed).shuffle(tasks)
    res = pmap(graph_case, tasks, chunksize=4)
    ctx.merge(res)
    E1, E2, AUTO = "@m.memento_function(version='1')", "@m.memento_function(version='2')", "@m.memento_function"
    rb = [(E1, E1, "explicit-same-version"), (E1, E2, "explicit-different-versions"), (AUTO, AUTO, "auto"), (AUTO, E1, "auto-and-explicit")]
    rb += [(a_, b_, lab, dm, rf) for (a_, b_, lab) in rb[:4] for dm in (AUTO, E1) for rf in ("t", "load") if (dm, rf) != (AUTO, "t")]
    ctx.merge(pmap(rebind_case, rb, chunksize=1))
    ctx.merge([redef_cycle_case(None), samename_case(None)])
    # the run-time check decides by the calling frame: it must be the frame of the calling THREAD
    cs = []
    for be in ("mem",) if not thorough else ("mem", "fs+cache-all"):
        cs.append(("%s|cold|exempt-caller-vs-hidden-call" % be, be, "cold", [[("ex", 1)], [("hid_a", 2)]]))
        cs.append(("%s|cold|exempt-caller-vs-top-level-call" % be, be, "cold", [[("ex", 1)], [("solo_a", 2)]]))
        cs.append(("%s|cold|hidden-call-vs-nested" % be, be, "cold", [[("hid_a", 2)], [("top1", 1)]]))
    c09.concurrent_part(ctx, cs, False, "a thread inside an explicitly versioned (exempt) function or inside a nested call tree while another "
                        "thread makes a hidden call (must be refused) or an ordinary top-level call (must not be)", bound=1, deep=(2, "runner", "calls") if thorough else None)
    ctx.rule += " Plus: a name re-pointed between two memento functions in the running process (4 kind pairs), closure and run-time check before / after / back."
    ctx.extra["graphs"] = len(tasks)
    t = tasks[len(tasks) // 2]
    ctx.extra["graphs_with_module_layouts"] = len(lay)
    ctx.sample({"n": t[0], "kinds": t[1], "edges": t[2], "forms": t[3], "text": render(t[0], t[1], t[2], dict(t[3]))["a.py"][:1500]})


def replay(ctx, art):
    a = art["artefact"]
    if "scn" in a:
        return c09.replay_concurrent("C14", art)
    if "samename" in a:
        r = samename_case(None)
        for v in r["violations"]:
            print(v[0], "\n", v[1])
        print("REPLAY property=C14 result=%s" % bool(r["violations"]))
        return 1 if r["violations"] else 0
    if "redef_cycle" in a:
        r = redef_cycle_case(None)
        for v in r["violations"]:
            print(v[0], "\n", v[1])
        print("REPLAY property=C14 result=%s" % bool(r["violations"]))
        return 1 if r["violations"] else 0
    if "rebind" in a:
        r = rebind_case(tuple(a["rebind"]))
        for v in r["violations"]:
            print(v[0], "\n", v[1])
        print("REPLAY property=C14 result=%s" % bool(r["violations"]))
        return 1 if r["violations"] else 0
    forms = tuple((tuple(k), v) for k, v in a["forms"])
    r = graph_case((a["n"], tuple(a["kinds"]), tuple(tuple(e) for e in a["edges"]), forms) + ((a["layout"],) if a.get("layout") else ()))
    for v in r["violations"]:
        print(v[0], "\n", v[1])
    print("REPLAY property=C14 result=%s" % bool(r["violations"]))
    return 1 if r["violations"] else 0

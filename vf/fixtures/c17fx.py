"""Partition chains for C17: part(level, specs) builds its own keys and declares
part(level - 1, specs) as merge parent. specs[level] = {"keys": [...], "kind": "mem" | "disk"}."""
import sys

import pandas as pd

import twosigma.memento as m
from twosigma.memento.partition import InMemoryPartition
from twosigma.memento.storage_filesystem import OnDiskPartition


def value(level, key):
    if key == "a":
        return level * 10 + 1
    if key == "b":
        return None if level == 1 else "b-at-%d" % level
    if level % 2:
        return pd.DataFrame({"lvl": [level], "k": [key]})
    return [level, key]


@m.memento_function(cluster="vfc", version="1")
def part(level, specs):
    sys.audit("vf.body", "part", level)
    own = specs[level]
    data = {k: value(level, k) for k in own["keys"]}
    if own["kind"] == "disk":
        p = OnDiskPartition()
        for k, v in data.items():
            p[k] = v
    else:
        p = InMemoryPartition(data)
    if level > 0:
        p._merge_parent = part(level - 1, specs)
    return p

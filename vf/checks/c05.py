"""C05 - every storage backend behaves like one dictionary of memoized calls.

Explicit-state BFS over storage-operation histories on the real backends (memory, filesystem,
filesystem + write-through cache of 4 KiB / 64 KiB, shared or separate metadata path); every
answer is compared with a plain dictionary and every distinct canonical state is probed as a
whole through a second, cache-less view.
"""
import os

from ..core import scratch_dir, rm
from .. import bfs as vbfs
from .. import storemc
from ..storemc import StoreRun, KEYS


def alphabet(keys, classes, small=False):
    ops = []
    for ki in range(len(keys)):
        for c in classes:
            ops.append(("memo", ki, c, None))
        ops.append(("getm", ki))
        ops.append(("read", ki))
        ops.append(("ism", ki))
        ops.append(("fc", ki))
    if not small:
        ops.append(("memo", 0, "s", "k1"))
        ops.append(("memo", 2 % len(keys), "t", "k1"))
        ops.append(("memo", 0, "N", "k1"))
        ops.append(("wmeta", 0, "log", False))
        ops.append(("wmeta", 0, "log", True))
        ops.append(("wmeta", 2 % len(keys), "log", False))
        ops.append(("rmeta", 0, "log"))
        ops.append(("isall", (0, 2 % len(keys))))
    for sym in sorted({s for s, _ in keys}):
        ops.append(("ff", sym))
        ops.append(("lsm", sym))
    ops.append(("lsm", keys[0][0], 1))
    ops.append(("fe",))
    ops.append(("lsf",))
    return ops


_root = {}


def _scratch():
    pid = os.getpid()
    if pid not in _root:
        _root[pid] = os.path.join(scratch_dir("c05"), "store")
    return _root[pid]


def build(cfg, hist):
    backend, keys, classes, small, depth, seed = cfg
    run = StoreRun(backend, _scratch(), keys)
    for op in hist:
        run.step(op)
    return run


def signature(cfg, run, op, clause, hist):
    backend = cfg[0]
    bk = {"mem": "memory", "fs": "fs", "fs+m": "fs", "fsc4": "fs+cache", "fsc4+m": "fs+cache", "fsc64": "fs+cache"}[backend]
    o = op[0]
    if o == "memo":
        o += ":" + op[2] + ("+override" if op[3] else "")
    prev = "after:" + (hist[-1][0] + (":" + str(hist[-1][2]) if hist and hist[-1][0] == "memo" else "") if hist else "init")
    return "%s|%s|%s|%s" % (bk, o, prev, clause)


def expand(cfg, hist):
    backend, keys, classes, small, depth, seed = cfg
    out = []
    # whole-state probe of the state reached by hist (once per canonical state)
    run = build(cfg, hist)
    bad = run.probe()
    if bad:
        clause, what = bad
        last = hist[-1] if hist else ("init",)
        sig = signature(cfg, run, last, clause, hist[:-1])
        out.append((("probe",), None, (sig, what + "\nbackend=%s history: %s" % (backend, list(hist)),
                                       {"backend": backend, "keys": keys, "history": [list(o) for o in hist], "probe": True}), None))
        return out
    if len(hist) >= depth:
        return out
    ops = alphabet(keys, classes, small)
    if seed:
        import random

        random.Random(seed).shuffle(ops)
    for op in ops:
        run = build(cfg, hist)
        bad = run.step(op)
        if bad:
            clause, what = bad
            sig = signature(cfg, run, op, clause, hist)
            out.append((op, None, (sig, what + "\nbackend=%s history: %s" % (backend, list(hist) + [op]),
                                   {"backend": backend, "keys": keys, "history": [list(o) for o in hist] + [list(op)]}), None))
            continue
        k = run.canon()
        out.append((op, vbfs.digest(k), None, "%s:%s" % (backend, vbfs.digest(k[0])[:10])))
    return out


def configs(tier, seed):
    cfgs = []
    if tier == "quick":
        full = ("s", "X", "N", "E")
        for b in ("mem", "fs", "fsc4", "fsc4+m"):
            cfgs.append((b, KEYS, full, False, 2, seed))
        for b in ("mem", "fs+m", "fsc4", "fsc64"):
            cfgs.append((b, KEYS[1:3], ("s", "L", "X"), True, 4, seed))
    else:
        full = ("s", "L", "X", "N", "E")
        for b in ("mem", "fs", "fs+m", "fsc4", "fsc4+m", "fsc64"):
            cfgs.append((b, KEYS, full, False, 3, seed))
        for b in ("mem", "fs", "fs+m", "fsc4", "fsc64"):
            cfgs.append((b, KEYS[1:3], ("s", "L", "X", "N"), True, 5, seed))
    return cfgs


def run(ctx):
    ctx.rule = ("BFS over storage-op histories (memoize by value class s/L/X/None/exception with and without key "
                "override, get_memento, read_result, is_memoized, is_all_memoized, forget call/function/everything, "
                "list_functions, list_mementos[limit], write/read metadata incl. stored-with-data) on real backends; "
                "one history kept per canonical real state (file tree + cache + model, uuids and write ticks ranked); "
                "each distinct state probed through a fresh cache-less view. distinct = canonical real states.")
    ctx.assumptions += ["metadata is written only for existing mementos (the function-level API enforces this)",
                        "metadata stored with a data object is undefined once the result is re-memoized",
                        "booleans are compared by truthiness"]
    # determinism self-check
    c0 = ("fsc4", KEYS, ("s", "X"), False, 3, 0)
    h = (("memo", 0, "s", None), ("memo", 1, "X", None), ("read", 0), ("fc", 1))
    a = build(c0, h).canon()
    b = build(c0, h).canon()
    ctx.selfcheck("same history twice gives the same canonical state", a == b)
    per = []
    for cfg in configs(ctx.tier, ctx.seed):
        init = vbfs.digest(build(cfg, ()).canon())
        label = "%s keys=%d depth=%d" % (cfg[0], len(cfg[1]), cfg[4])
        r = vbfs.explore(expand, cfg, init, max_depth=cfg[4] + 1, label=label)
        # the depth cap is the stated bound, not an unexpected cap
        r["caps"] = [c for c in r["caps"] if "depth cap" not in c]
        ctx.merge([r])
        per.append({"config": label, "states": r["states"], "transitions": r["transitions"], "closure": r["closure"]})
    ctx.extra["configs"] = per
    ctx.extra["bound"] = "op histories to the depth given per config; every state at that depth is still probed"
    ctx.exhaustive = True
    ctx.count(evaluations=ctx.transitions)


def replay(ctx, art):
    a = art["artefact"]
    cfg = (a["backend"], [tuple(k) for k in a["keys"]], (), False, 99, 0)
    hist = [tuple(tuple(x) if isinstance(x, list) else x for x in o) for o in a["history"]]
    run = StoreRun(a["backend"], _scratch(), cfg[1])
    bad = None
    for op in hist:
        bad = run.step(op)
        print(op, "->", bad)
    if not bad:
        bad = run.probe()
        print("probe ->", bad)
    print("REPLAY property=%s result=%s" % (art["property"], bad))
    return 1 if bad else 0

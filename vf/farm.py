"""E2 - process farm: run generated programs in fresh processes forked from a warm parent that
has imported twosigma.memento but never a generated package; cross-process and in-process
delivery of edit histories; plain (un-memoized) reference runs.
"""
import importlib
import os
import pickle
import sys
import traceback

from . import audit, progen


class ChildFailed(Exception):
    pass


def _save_coverage():
    """Only for tools/cov.sh (coverage of the library under the checks): a forked child leaves through os._exit."""
    if os.environ.get("VF_COV"):
        try:
            import coverage

            c = coverage.Coverage.current()
            if c is not None:
                c.stop()
                c.save()
        except Exception:
            pass


def fork_call(fn, *args):
    """Run fn(*args) in a forked child and return its (picklable) result."""
    r, w = os.pipe()
    pid = os.fork()
    if pid == 0:
        code = 0
        try:
            os.close(r)
            try:
                res = ("ok", fn(*args))
            except BaseException as e:  # noqa
                res = ("err", "%r\n%s" % (e, traceback.format_exc()))
            with os.fdopen(w, "wb") as f:
                pickle.dump(res, f)
        except BaseException:
            code = 3
        _save_coverage()
        os._exit(code)
    os.close(w)
    with os.fdopen(r, "rb") as f:
        data = f.read()
    _, status = os.waitpid(pid, 0)
    if not data:
        raise ChildFailed("child exited with status %s without a result" % (status,))
    tag, val = pickle.loads(data)
    if tag != "ok":
        raise ChildFailed(val)
    return val


def jsonable(v):
    """Comparable, picklable form of a returned value."""
    if isinstance(v, (list, tuple)):
        return [jsonable(x) for x in v]
    if isinstance(v, dict):
        return {str(k): jsonable(x) for k, x in v.items()}
    if isinstance(v, (str, int, float, bool)) or v is None:
        return v
    return repr(v)


def set_env(store_dir, clusters=()):
    import twosigma.memento as m
    from twosigma.memento.storage_filesystem import FilesystemStorageBackend

    repos = []
    if clusters:
        cl = {c: m.FunctionCluster(name=c, storage=FilesystemStorageBackend(path=os.path.join(store_dir, "cluster_" + c)))
              for c in clusters}
        repos = [m.ConfigurationRepository(name="vfrepo", clusters=cl)]
    m.Environment.set(m.Environment(name="vfenv", base_dir=store_dir, repos=repos))


def do_calls(mod_a, calls, plain):
    """calls: list of (fname, args, kwargs, modifier). Returns list of (outcome, bodies)."""
    out = []
    for fname, args, kwargs, modifier in calls:
        audit.bodies_reset()
        f = getattr(mod_a, fname, None)
        try:
            if f is None:
                raise AttributeError(fname)
            kw = dict(kwargs)
            for k, v in list(kw.items()):
                if isinstance(v, str) and v.startswith("@fn:"):
                    kw[k] = getattr(mod_a, v[4:])
            if not plain and modifier:
                if modifier == "force_local":
                    f = f.force_local()
                elif modifier == "partial":
                    f = f.partial()
                elif modifier == "ctx":
                    f = f.with_context_args({"vfctx": 1})
                elif modifier == "ignore":
                    f = f.ignore_result()
            if not plain and modifier in ("batch", "range"):
                # the same call made through the batch forms (the generated functions take x first)
                val = f.call_batch([dict(kw, x=args[0])])[0] if modifier == "batch" else f.map_over_range(x=[args[0]])[args[0]]
            else:
                val = f(*args, **kw)
            if not plain and modifier == "ignore":
                o = ("ignored", None)
            else:
                o = ("val", jsonable(val))
        except Exception as e:
            o = ("exc", type(e).__name__, str(e)[:80])
        out.append((o, [b[0] for b in audit.bodies()]))
    return out


def versions_of(mod_a, names):
    out = {}
    for n in names:
        f = getattr(mod_a, n, None)
        if f is not None and hasattr(f, "version"):
            try:
                out[n] = f.version()
            except Exception as e:
                out[n] = "EXC:%s:%s" % (type(e).__name__, str(e)[:60])
    return out


def _import_pkg(root, pkg="vfp"):
    sys.path.insert(0, root)
    importlib.invalidate_caches()
    return importlib.import_module(pkg + ".a")


def _xproc_child(root, store_dir, calls, plain, vnames, clusters):
    audit.install()
    if not plain:
        set_env(store_dir, clusters)
    mod = _import_pkg(root)
    res = do_calls(mod, calls, plain)
    return {"results": res, "versions": {} if plain else versions_of(mod, vnames)}


def run_xproc(prog, root, store_dir, calls, plain=False, vnames=(), clusters=()):
    """Import the edition in a fresh forked child against store_dir and run calls."""
    progen.write_pkg(prog, root, plain)
    return fork_call(_xproc_child, root, store_dir, calls, plain, list(vnames), tuple(clusters))


# ---------------------------------------------------------------------------------------------
# in-process delivery
# ---------------------------------------------------------------------------------------------

_redef_n = [0]


def _exec_into(module, src, root, plain):
    """Execute src in module's namespace from a real file (so inspect.getsource works)."""
    # CPython compiles `sys.audit(...)` differently depending on whether `import sys` occurs in the
    # same compilation unit, so the snippet carries the module's import header: the re-defined
    # function then has the byte code it has when the whole module text is imported.
    src = progen.HEADER + ("" if plain else "import twosigma.memento as m\n") + src
    _redef_n[0] += 1
    path = os.path.join(root, "redef_%d_%s.py" % (_redef_n[0], "p" if plain else "m"))
    with open(path, "w") as f:
        f.write(src)
    exec(compile(src, path, "exec"), module.__dict__)


def apply_delta(p0, p1, mods, root, plain, mode):
    funcs, vars_, classes, binds = progen.changed_entities(p0, p1)
    if mode == "reload":
        progen.write_pkg(p1, root, plain)
        importlib.invalidate_caches()
        if mods.get("q") is not None:
            importlib.reload(mods["q"])
        if mods.get("i") is not None:
            importlib.reload(mods["i"])
        if "b" in mods and mods["b"] is not None:
            importlib.reload(mods["b"])
        importlib.reload(mods["a"])
        return
    a = mods["a"]
    for v in vars_:
        old, new = getattr(a, v, None), p1["vars"][v]
        if mode == "mutate" and type(old) is type(new) and isinstance(old, (list, dict)):
            # same object, new contents
            old.clear()
            old.extend(new) if isinstance(old, list) else old.update(new)
        else:
            setattr(a, v, new)
    for v in progen.changed_bvars(p0, p1):
        setattr(mods["b"], v, p1["b_vars"][v])
    for c in classes:
        if mode == "mutate":  # attributes set on the live class object (no new class, no re-binding)
            for k, val in p1["classes"][c].items():
                setattr(getattr(a, c), k, val)
            continue
        _exec_into(a, progen.render_class(c, p1["classes"][c]), root, plain)
        for bname, target in p1.get("bindings", {}).items():
            if target == c:
                setattr(a, bname, getattr(a, c))
    for bname in binds:
        setattr(a, bname, getattr(a, p1["bindings"][bname]))
    for n in funcs:
        f = next(x for x in p1["funcs"] if x["name"] == n)
        mod = mods[f["module"]]
        src = progen.render_func(f, p1, plain)
        used_alias = any(c["form"] == "alias" and c["target"] == n for g in p1["funcs"] for c in g["calls"])
        used_wrap = any(c["form"] == "wrapper" and c["target"] == n for g in p1["funcs"] for c in g["calls"])
        if used_alias:
            src += "%s_alias = %s\n" % (n, n)
        if used_wrap:
            src += "%s_w = passthru(%s)\n" % (n, n)
        _exec_into(mod, src, root, plain)


def _inproc_child(editions, root, store_dir, calls, plain, mode, vnames, clusters, pre_queries):
    audit.install()
    if not plain:
        set_env(store_dir, clusters)
    progen.write_pkg(editions[0], root, plain)
    a = _import_pkg(root)
    mods = {"a": a, "b": sys.modules.get("vfp.b"), "q": sys.modules.get("vfq.lib"),
            "i": sys.modules.get("vfp") if any(f["module"] == "i" for f in editions[0]["funcs"]) else None}
    out = []
    for k, ed in enumerate(editions):
        if k > 0:
            apply_delta(editions[k - 1], ed, mods, root, plain, mode)
            a = mods["a"]
        res = do_calls(a, calls, plain)
        out.append({"results": res, "versions": {} if plain else versions_of(a, vnames)})
    return out


def run_inproc(editions, root, store_dir, calls, plain=False, mode="reexec", vnames=(), clusters=()):
    return fork_call(_inproc_child, editions, root, store_dir, calls, plain, mode, list(vnames), tuple(clusters), None)

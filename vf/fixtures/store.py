"""Memento functions used only as *names* by the storage-level checks (C05/C06/C07/C19).

Explicit versions: the code hash machinery is not involved.  ``fn`` / ``fn1`` give a pair of
names one of which is a prefix of the other; versions "1" / "10" are crafted on references.
"""
import twosigma.memento as m


@m.memento_function(cluster="vfc", version="1")
def fn(x):
    return x


@m.memento_function(cluster="vfc", version="1")
def fn1(x):
    return x


@m.memento_function(cluster="vfc", version="1")
def gn(x):
    return x

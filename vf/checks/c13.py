"""C13 - the in-process version cache is coherent with a from-scratch computation.

BFS over in-process event histories on a live generated module (redefine memento / plain
functions, rebind and mutate tracked variables, define a previously undefined symbol as helper
or variable, replace a memento function by a plain one and back, rebind the head of a dotted
name, create modifier clones / unregistered wrappers, version queries at every position).  After
every transition every version asked must equal the one a FRESH process computes for the
program text the history denotes.
"""
import copy
import hashlib
import json
import os

from ..core import scratch_dir, rm, HarnessError
from .. import bfs as vbfs
from .. import farm, progen
from ..progen import mkfunc, call


def base_program():
    return {
        "funcs": [mkfunc("f", calls=[call("g"), call("h"), call("lk"), call("abs")], reads=["G", "GL", "cfg.X", "cfg.Z", "Alt.Z", "cfg.inner.W"], rich=False),
                  mkfunc("g", reads=["G", "GV"], rich=False),
                  mkfunc("h", kind="plain", reads=["GL", "HV"], rich=False),
                  # reference cycles: r refers to itself, p and q to each other (only versions are asked, nothing is called)
                  mkfunc("r", calls=[call("r")], rich=False),
                  mkfunc("p", calls=[call("q")], rich=False), mkfunc("q", calls=[call("p")], rich=False),
                  # w declares its dependency (dependencies=[g2]); the module name g2 is later re-bound to g3 and back
                  mkfunc("g2", rich=False), mkfunc("g3", rich=False), dict(mkfunc("w", calls=[call("g2")], rich=False), deps=["g2"]),
                  # we calls e2; e2 / e3 have DECLARED versions and the module name e2 is later re-bound to e3 and back
                  mkfunc("e2", kind="explicit", version="1", rich=False), mkfunc("e3", kind="explicit", version="2", rich=False),
                  mkfunc("we", calls=[call("e2")], rich=False),
                  # c uses two closures made by one factory, and tr (an alias of a builtin: nothing watches it)
                  mkfunc("c", calls=[call("double"), call("triple"), call("tr")], rich=False),
                  mkfunc("h2", kind="plain", rich=False),  # (never re-defined: what a closure name gets re-bound to)
                  # n is declared with auto_dependencies=False: what it reads and calls is not part of its version
                  dict(mkfunc("n", calls=[call("h")], reads=["GV"], rich=False), no_auto=True)],
        "stmts": {"@keep": "g2_orig = g2", "@bind_t": "g2 = g2_orig", "@keep_e": "e2_orig = e2", "@bind_e": "e2 = e2_orig",
                  "@factory": "def make(k_):\n    def scale(x, k_=k_):\n        return x * k_\n    return scale", "@double": "double = make(2)", "@triple": "triple = make(3)",
                  "@tr": "tr = len"},
        "vars": {"G": 5, "GL": [1, 2], "HV": 1, "GV": 1},
        # Alt.Z is missing like cfg.Z (same attribute name, another owner); cfg.inner.W is a missing attribute two levels down
        "classes": {"In1": {"V": 1}, "C1": {"X": 10, "inner": {"__ref__": "In1"}}, "C2": {"X": 20, "inner": {"__ref__": "In1"}}, "Alt": {"X": 30}},
        "bindings": {"cfg": "C1"},
        "order": ["f", "g", "h", "lk", "r", "p", "q", "abs", "g2", "g3", "@keep", "@bind_t", "w", "n", "e2", "e3", "@keep_e", "@bind_e", "we", "h2", "@factory", "@double", "@triple", "@tr", "c"],
        "late": ["lk"],
    }


# w (declared dependencies) is asked LAST: the rule of a declared dependency always reports a change (its resolver hands back the
# resolver function instead of calling it), so every version query of w bumps the global generation and makes every function
# asked after it re-compute from scratch - which would hide a stale version of those
QUERIED = ("f", "g", "r", "p", "q", "n", "we", "c", "w")
EVENTS = ["redef_f", "redef_g", "redef_h", "redef_r", "redef_q", "redef_h_default", "redef_h_kwdefault", "rebind_G", "rebind_HV", "rebind_GV", "mutate_GL", "def_k_helper", "def_k_var", "def_abs_helper", "rebind_t", "rebind_e", "rebind_double", "rebind_triple", "def_tr_explicit", "toggle_g_kind",
          "rebind_cfg", "def_attr_Z", "def_attr_AltZ", "def_attr_W", "def_k_none", "clone_f", "clone_f_quiet", "clone_n", "wrap_f", "query_f", "query_g"]


def apply_to_ast(P, ev):
    """Program text after the event (None if the event does not change the text)."""
    Q = copy.deepcopy(P)
    fm = {f["name"]: f for f in Q["funcs"]}
    if ev in ("redef_f", "redef_g", "redef_h", "redef_r", "redef_q"):
        f = fm[ev[-1]]
        f["lit"] = 8 if f["lit"] == 7 else 7
    elif ev == "redef_h_default":  # same body, same position, another positional default
        fm["h"]["pos_default"] = 11 if fm["h"]["pos_default"] == 10 else 10
    elif ev == "redef_h_kwdefault":
        fm["h"]["kw_default"] = 4 if fm["h"]["kw_default"] == 3 else 3
    elif ev == "rebind_G":
        Q["vars"]["G"] = 6 if Q["vars"]["G"] == 5 else 5
    elif ev in ("rebind_HV", "rebind_GV"):
        Q["vars"][ev[-2:]] = 2 if Q["vars"][ev[-2:]] == 1 else 1
    elif ev == "mutate_GL":
        Q["vars"]["GL"] = [1, 2, 9] if Q["vars"]["GL"] == [1, 2] else [1, 2]
    elif ev == "def_k_helper":
        Q["funcs"] = [f for f in Q["funcs"] if f["name"] != "lk"] + [mkfunc("lk", kind="plain", rich=False)]
        Q["vars"].pop("lk", None)
    elif ev == "def_k_var":
        Q["funcs"] = [f for f in Q["funcs"] if f["name"] != "lk"]
        Q["vars"]["lk"] = 3
    elif ev == "def_k_none":  # the late symbol gets defined - as None
        Q["funcs"] = [f for f in Q["funcs"] if f["name"] != "lk"]
        Q["vars"]["lk"] = None
    elif ev == "def_abs_helper":  # a module-level helper that takes the name of a builtin the function was using
        Q["funcs"] = Q["funcs"] + [mkfunc("abs", kind="plain", rich=False)]
    elif ev == "toggle_g_kind":
        fm["g"]["kind"] = "plain" if fm["g"]["kind"] == "memento" else "memento"
    elif ev == "rebind_cfg":
        Q["bindings"]["cfg"] = "C2" if Q["bindings"]["cfg"] == "C1" else "C1"
    elif ev == "rebind_t":  # the declared dependency of w now names the other function (no registration happens)
        Q["stmts"]["@bind_t"] = "g2 = g3" if Q["stmts"]["@bind_t"] == "g2 = g2_orig" else "g2 = g2_orig"
    elif ev == "rebind_e":
        Q["stmts"]["@bind_e"] = "e2 = e3" if Q["stmts"]["@bind_e"] == "e2 = e2_orig" else "e2 = e2_orig"
    elif ev in ("rebind_double", "rebind_triple"):  # one of the two closures is replaced by another plain function (and back)
        n_ = ev[7:]
        orig = "%s = make(%d)" % (n_, 2 if n_ == "double" else 3)
        Q["stmts"]["@" + n_] = "%s = h2" % n_ if Q["stmts"]["@" + n_] == orig else orig
    elif ev == "def_tr_explicit":  # the alias of a builtin is re-defined as a memento function with a declared version
        Q["stmts"]["@tr"] = "@m.memento_function(version='1')\ndef tr(x=1):\n    return x"
    elif ev == "def_attr_Z":
        Q["classes"][Q["bindings"]["cfg"]]["Z"] = 5
    elif ev == "def_attr_AltZ":
        Q["classes"]["Alt"]["Z"] = 6
    elif ev == "def_attr_W":
        Q["classes"]["In1"]["W"] = 7
    else:
        return None
    return Q


def enabled(P, ev):
    fm = {f["name"]: f for f in P["funcs"]}
    if ev == "def_k_helper":
        return "lk" not in fm
    if ev in ("def_k_var", "def_k_none"):
        return "lk" not in P["vars"]
    if ev == "def_abs_helper":
        return "abs" not in fm
    if ev == "query_g":
        return fm["g"]["kind"] == "memento"
    if ev == "def_tr_explicit":
        return P["stmts"]["@tr"] == "tr = len"
    if ev == "def_attr_Z":
        return "Z" not in P["classes"][P["bindings"]["cfg"]]
    if ev == "def_attr_AltZ":
        return "Z" not in P["classes"]["Alt"]
    if ev == "def_attr_W":
        return "W" not in P["classes"]["In1"]
    return True


def apply_live(P, Q, ev, mods, root, objs):
    """Apply the event to the live module. Returns an immediate observation or None."""
    a = mods["a"]
    if ev == "mutate_GL":
        if Q["vars"]["GL"] == [1, 2, 9]:
            a.GL.append(9)  # in place
        else:
            a.GL.pop()
        return None
    if ev == "def_attr_Z":
        setattr(getattr(a, Q["bindings"]["cfg"]), "Z", 5)  # a new attribute on the live class object
        return None
    if ev == "def_attr_AltZ":
        a.Alt.Z = 6
        return None
    if ev == "def_attr_W":
        a.In1.W = 7
        return None
    if ev == "rebind_e":
        setattr(a, "e2", getattr(a, Q["stmts"]["@bind_e"].split("= ")[1]))
        return None
    if ev in ("rebind_double", "rebind_triple"):
        n_ = ev[7:]
        rhs = Q["stmts"]["@" + n_].split("= ", 1)[1]
        setattr(a, n_, a.h2 if rhs == "h2" else a.make(2 if n_ == "double" else 3))
        return None
    if ev == "def_tr_explicit":
        farm._exec_into(a, "import twosigma.memento as m\n" + Q["stmts"]["@tr"] + "\n", root, False)
        return None
    if ev == "rebind_t":
        setattr(a, "g2", getattr(a, Q["stmts"]["@bind_t"].split("= ")[1]))
        return None
    if ev == "query_all":
        for n_ in QUERIED[:-1]:
            try:
                getattr(a, n_).version()
            except Exception:
                pass
        return None
    if ev == "clone_f_quiet":
        # a modifier clone is made and kept; nobody asks for its version now
        objs.append(("clone", a.f.force_local(), objs_epoch(objs)))
        return None
    if ev in ("clone_f", "clone_n", "wrap_f", "query_f", "query_g"):
        import twosigma.memento as m

        try:
            if ev == "clone_f":
                o = a.f.force_local()
                objs.append(("clone", o, objs_epoch(objs)))
                return ("f", o.version())
            if ev == "clone_n":
                o = a.n.partial()
                objs.append(("clone-of-n", o, None))
                return ("n", o.version())
            if ev == "wrap_f":
                o = m.MementoFunction(a.f.fn, register_fn=False)
                objs.append(("wrapper", o, objs_epoch(objs)))
                return ("f", o.version())
            n = ev[-1]
            return (n, getattr(a, n).version())
        except Exception as e:
            return (ev[-1] if ev.startswith("query") or ev == "clone_n" else "f", "EXC:%s:%s" % (type(e).__name__, str(e)[:80]))
    farm.apply_delta(P, Q, mods, root, False, "reexec")
    if ev == "redef_f":
        objs.append(("epoch", None, None))  # clones / wrappers made before now hold the old code
    if ev == "def_k_var":
        setattr(a, "lk", 3)
    if ev == "def_k_none":
        setattr(a, "lk", None)
    return None


def objs_epoch(objs):
    return sum(1 for o in objs if o[0] == "epoch")


def internal_state(a, objs):
    """Canonical digest of everything _update_dependencies reads."""
    import twosigma.memento as m

    MF = m.MementoFunction
    out = []
    gen = MF._global_fn_generation
    cands = [(n, getattr(a, n, None)) for n in QUERIED] + [(k, o) for k, o, _ in objs if o is not None]
    for name, o in cands:
        if not isinstance(o, MF):
            out.append((name, "not-memento"))
            continue
        entry = MF._global_fn_version_cache.get(o.qualified_name_without_version)
        rules = tuple(sorted((r.key, r.rule_hash, getattr(r, "last_value", None)) for r in (o._hash_rules or [])))
        from ..core import object_state

        out.append((name, o._calculated_version, entry.version if entry else None,
                    (entry.as_of_generation == gen) if entry else None, hashlib.sha1(repr(rules).encode()).hexdigest(),
                    hashlib.sha1(repr(object_state(o, depth=0)).encode()).hexdigest()))
    return tuple(out)


def _child(history, root, clones_first=False):
    import sys
    import importlib

    farm.set_env(os.path.join(root, "store"))
    P = base_program()
    progen.write_pkg(P, root)
    sys.path.insert(0, root)
    a = importlib.import_module("vfp.a")
    mods = {"a": a, "b": None}
    objs = []
    imm = None
    for ev in history:
        Q = apply_to_ast(P, ev) or P
        imm = apply_live(P, Q, ev, mods, root, objs)
        P = Q
        a = mods["a"]
    canon = internal_state(a, objs)
    final = {}
    ep = objs_epoch(objs)

    def ask_named():
        for name in QUERIED:
            o = getattr(a, name, None)
            if hasattr(o, "version"):
                try:
                    final[name] = o.version()
                except Exception as e:
                    final[name] = "EXC:%s:%s" % (type(e).__name__, str(e)[:80])

    def ask_objs():
        for i, (kind, o, e) in enumerate(objs):
            if o is not None and (e == ep or kind == "clone-of-n"):  # still wrapping the current code of f (n is never re-defined)
                try:
                    final["%s#%d" % (kind, i)] = o.version()
                except Exception as ex:
                    final["%s#%d" % (kind, i)] = "EXC:%s:%s" % (type(ex).__name__, str(ex)[:80])

    # which object is asked first after the last event decides who re-computes and who takes the shortcut
    for step in ((ask_objs, ask_named) if clones_first else (ask_named, ask_objs)):
        step()
    return {"P": P, "canon": canon, "imm": imm, "final": final}


_oracle = {}


def fresh_versions(P, top):
    """Versions a brand-new process computes for program text P (memoised; shared on disk)."""
    key = hashlib.sha1(progen.key(P).encode()).hexdigest()
    if key in _oracle:
        return _oracle[key]
    shared = os.path.join(os.environ.get("VF_SCRATCH_TOP", top), "c13_oracle")
    os.makedirs(shared, exist_ok=True)
    path = os.path.join(shared, key + ".json")
    if os.path.exists(path):
        try:
            _oracle[key] = json.load(open(path))
            return _oracle[key]
        except ValueError:
            pass
    root = os.path.join(top, "oracle_" + key)
    r = farm.run_xproc(P, root, os.path.join(root, "store"), [], False, list(QUERIED))
    rm(root)
    _oracle[key] = r["versions"]
    tmp = path + ".%d" % os.getpid()
    json.dump(r["versions"], open(tmp, "w"))
    os.replace(tmp, path)
    return _oracle[key]


def program_after(hist):
    P = base_program()
    for ev in hist:
        P = apply_to_ast(P, ev) or P
    return P


EVENTS_CORE = ["redef_f", "redef_g", "redef_h", "redef_r", "redef_q", "rebind_G", "rebind_HV", "mutate_GL", "def_k_helper", "def_k_var", "def_abs_helper", "rebind_t",
               "toggle_g_kind", "rebind_cfg", "def_attr_Z", "clone_f", "clone_f_quiet", "wrap_f", "query_f", "rebind_e", "rebind_double", "def_tr_explicit"]
WARM_EVENTS = ["rebind_G", "mutate_GL", "redef_h", "clone_f_quiet", "clone_f", "wrap_f", "rebind_cfg", "rebind_t", "rebind_e", "rebind_double", "rebind_triple",
               "def_tr_explicit", "def_k_none", "def_attr_AltZ"]


def expand(cfg, hist):
    depth, seed = cfg[:2]
    prefix = tuple(cfg[2]) if len(cfg) > 2 else ()  # events that happened before the explored part (same for all histories)
    out = []
    if len(hist) >= depth:
        return out
    hist = prefix + tuple(hist)
    P = program_after(hist)
    alphabet = EVENTS_CORE if len(cfg) > 3 and cfg[3] == "core" else (EVENTS if not prefix else WARM_EVENTS)
    evs = [e for e in alphabet if enabled(P, e)]
    if seed:
        import random

        random.Random(seed).shuffle(evs)
    top = scratch_dir("c13")
    try:
        for ev in evs:
            h = hist + (ev,)
            try:
                r = farm.fork_call(_child, h, os.path.join(top, "live"))
            except farm.ChildFailed as e:
                raise HarnessError("live child failed for %s: %s" % (h, e))
            rm(os.path.join(top, "live"))
            r2 = None
            if any(e in ("clone_f", "clone_f_quiet", "clone_n", "wrap_f") for e in h):
                try:
                    r2 = farm.fork_call(_child, h, os.path.join(top, "live"), True)
                except farm.ChildFailed as e:
                    raise HarnessError("live child (clones first) failed for %s: %s" % (h, e))
                rm(os.path.join(top, "live"))
            want = fresh_versions(r["P"], top)
            bad = None
            if r["imm"] is not None:
                n, v = r["imm"]
                if v != want.get(n):
                    bad = ("%s-immediate" % ev, "%s gave %s, a fresh process computes %s for %s" % (ev, v, want.get(n), n))
            for rr, how in ((r, ""), (r2, "|clones-asked-first")):
                if bad is not None or rr is None:
                    continue
                for name, v in sorted(rr["final"].items()):
                    w = want.get(name.split("#")[0] if "#" not in name else ("n" if name.startswith("clone-of-n") else "f"))
                    if v != w:
                        what = "raises" if str(v).startswith("EXC") else "stale-or-wrong"
                        bad = ("%s|%s%s" % (name.split("#")[0], what, how), "version() of %s is %s, a fresh process computes %s%s" % (name, v, w, how.replace("|", " ; ")))
                        break
            if bad:
                prev = hist[-1] if hist else "init"
                sig = "%s|after:%s|%s" % (ev, prev, bad[0])
                out.append((ev, None, (sig, bad[1] + "\nevent history: %s" % (list(h),), {"history": list(h), "prefix": len(prefix)}), None))
                continue
            canon = (progen.key(r["P"]), r["canon"])
            out.append((ev, vbfs.digest(canon), None, vbfs.digest((progen.key(r["P"]), sorted(r["final"].items())))[:12]))
    finally:
        rm(top)
    return out


# -- a re-defined helper that lands on the address of a dead one -----------------------------------------------------
AR_HELPERS = 48


def _ar_src(i, gen):
    return "def h%d():\n    return %s\n" % (i, {1: "A", 2: "A + 0", 3: "B"}[gen])


def _ar_main():
    return ("from twosigma.memento import memento_function\nA = 1\nB = 2\n@memento_function\ndef f():\n    return %s\n"
            % " + ".join("h%d()" % i for i in range(AR_HELPERS)))


def _ar_exec(mod, src, n=[0]):
    import linecache

    n[0] += 1
    fname = "<vf-c13-ar-%d>" % n[0]
    linecache.cache[fname] = (len(src), None, src.splitlines(True), fname)
    exec(compile(src, fname, "exec"), mod.__dict__)


def _ar_module(root):
    import sys
    import types

    farm.set_env(os.path.join(root, "store"))
    mod = types.ModuleType("vf_c13_ar")
    mod.__package__ = ""
    sys.modules["vf_c13_ar"] = mod
    return mod


def _ar_fresh(root):
    mod = _ar_module(root)
    for i in range(AR_HELPERS):
        _ar_exec(mod, _ar_src(i, 3 if i == 0 else 2))
    _ar_exec(mod, _ar_main())
    return mod.f.version()


def _ar_history(root, max_attempts):
    """Helpers reading A are versioned, replaced and released; then h0 is re-defined (now reading B) again and again -
    every attempt kept alive - until the new function object sits at the address of one of the dead helpers."""
    import gc

    mod = _ar_module(root)
    for i in range(AR_HELPERS):
        _ar_exec(mod, _ar_src(i, 1))
    _ar_exec(mod, _ar_main())
    v1 = mod.f.version()
    dead = {id(getattr(mod, "h%d" % i)) for i in range(AR_HELPERS)}
    for i in range(AR_HELPERS):
        _ar_exec(mod, _ar_src(i, 2))
    v2 = mod.f.version()
    gc.collect()
    keep, versions, reused = [], [], None
    for k in range(max_attempts):
        _ar_exec(mod, _ar_src(0, 3))
        versions.append(mod.f.version())  # asked after EVERY re-definition
        if id(mod.h0) in dead:
            reused = k + 1
            break
        keep.append(mod.h0)
    return {"v1": v1, "v2": v2, "versions": versions, "reused_after": reused}


def addr_reuse_case(max_attempts):
    top = scratch_dir("c13ar")
    out = {"evaluations": 1, "states": 0, "transitions": 0, "traces": 1, "violations": [], "outcomes": [], "caps": []}
    try:
        want = farm.fork_call(_ar_fresh, os.path.join(top, "f"))
        h = farm.fork_call(_ar_history, os.path.join(top, "h"), max_attempts)
    except farm.ChildFailed as e:
        raise HarnessError("address re-use child failed: %s" % e)
    finally:
        rm(top)
    out["transitions"] = out["states"] = len(h["versions"])
    wrong = [k for k, v in enumerate(h["versions"]) if v != want]
    if wrong:
        out["violations"].append(("helper-redefined-at-a-freed-address|stale-or-wrong",
                                  "after re-definition #%d of helper h0 (it now reads B; address of a dead helper re-used: %s) version() of f is %s, a fresh "
                                  "process computes %s" % (wrong[0] + 1, h["reused_after"] == wrong[0] + 1, h["versions"][wrong[0]], want),
                                  {"addr_reuse": max_attempts}))
    if h["reused_after"] is None:
        out["caps"].append("no re-defined helper landed on the address of a dead one within %d re-definitions" % max_attempts)
    out["outcomes"].append("addr-reuse|reused_after=%s" % h["reused_after"])
    out["reused_after"] = h["reused_after"]
    return out


def run(ctx):
    thorough = ctx.tier == "thorough"
    depth = 4 if thorough else 3
    ctx.rule = ("BFS to depth %d over in-process events %s on a live module (f -> g memento, f -> h plain, f -> k late symbol, "
                "globals G / GL, dotted cfg.X, self-recursive r, mutually recursive p <-> q); after every transition all versions (f, g, clones and unregistered wrappers "
                "of the current code of f) are compared with a fresh process importing the resulting program text; one "
                "history per canonical (program text, version-cache state, hash-rule state); distinct = canonical states.%s"
                % (3, EVENTS, " Thorough: also to depth 4 over the core events %s." % EVENTS_CORE if thorough else ""))
    ctx.assumptions += ["clones / wrappers created before f is redefined hold the old code object and are not queried afterwards",
                        "no cluster is locked"]
    a = expand((1, 0), ())
    b = expand((1, 0), ())
    ctx.selfcheck("first level expands identically twice", [x[:2] for x in a] == [x[:2] for x in b])
    # quick: depth 3 over all events. thorough: depth 3 over all events and depth 4 over the core events (depth 4 over all
    # 36 events is some 350 000 live processes plus a fresh interpreter per distinct program text)
    cfg = (3, ctx.seed)
    r = vbfs.explore(expand, cfg, vbfs.digest("init"), max_depth=3, label="c13")
    if thorough:
        r["caps"] = [c for c in r["caps"] if "depth cap" not in c]
        ctx.merge([r])
        r = vbfs.explore(expand, (4, ctx.seed, (), "core"), vbfs.digest("init-core"), max_depth=4, label="c13-core")
    r["caps"] = [c for c in r["caps"] if "depth cap" not in c]
    ctx.merge([r])
    # the same search started from a module whose versions have all been asked for once (every function has rules to go stale)
    wd = 4 if thorough else 3
    rw = vbfs.explore(expand, (wd, ctx.seed, ("query_all",)), vbfs.digest("init-warm"), max_depth=wd, label="c13-warm")
    rw["caps"] = [c for c in rw["caps"] if "depth cap" not in c]
    ctx.merge([rw])
    ctx.rule += " A second search to depth %d over %s starts after every function has been asked for its version once." % (wd, WARM_EVENTS)
    ar = addr_reuse_case(4000 if thorough else 1000)
    ctx.merge([ar])
    ctx.extra["address_reuse"] = {"helpers": AR_HELPERS, "redefinitions_until_a_freed_address_was_reused": ar["reused_after"]}
    ctx.rule += (" Address re-use: %d plain helpers versioned, replaced and released, then one helper re-defined (reading another global) "
                 "until its function object sits at the address of a dead helper; version() asked after every re-definition and compared "
                 "with a fresh process." % AR_HELPERS)
    ctx.extra["frontier_per_level"] = r["per_level"]
    ctx.extra["depth"] = depth
    ctx.count(evaluations=ctx.transitions)


def replay(ctx, art):
    if "addr_reuse" in art["artefact"]:
        r = addr_reuse_case(art["artefact"]["addr_reuse"])
        for v in r["violations"]:
            print(v[0], "\n", v[1])
        print("REPLAY property=C13 result=%s" % bool(r["violations"]))
        return 1 if r["violations"] else 0
    h = tuple(art["artefact"]["history"])
    npre = art["artefact"].get("prefix", 0)
    out = expand((len(h), 0, h[:npre]), h[npre:-1]) if npre else expand((len(h), 0), h[:-1])
    bad = [x[2] for x in out if x[0] == h[-1] and x[2]]
    for b in bad:
        print(b[0], "\n", b[1])
    print("REPLAY property=C13 result=%s" % bool(bad))
    return 1 if bad else 0

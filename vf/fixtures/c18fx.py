"""Functions in two named clusters for the configuration check (C18)."""
import sys

import twosigma.memento as m


@m.memento_function(cluster="ca", version="1")
def fa(x):
    sys.audit("vf.body", "fa", x)
    return "a-%s" % x


@m.memento_function(cluster="cb", version="1")
def fb(x):
    sys.audit("vf.body", "fb", x)
    return "b-%s" % x

#!/usr/bin/env python3
"""tools/seedrun.py [name-prefix ...] [--tier quick] [--props C05,C07]: run the registered check(s)
against every kept mutation (scratch worktree + VF_REPO) and record in meta.json what detected it."""
import glob
import json
import os
import subprocess
import sys
from concurrent.futures import ThreadPoolExecutor

HERE = os.path.dirname(os.path.dirname(os.path.abspath(__file__)))
args = [a for a in sys.argv[1:] if not a.startswith("--")]
tier = "quick"
props = None
jobs = 3
for a in sys.argv[1:]:
    if a.startswith("--tier="):
        tier = a.split("=")[1]
    if a.startswith("--props="):
        props = a.split("=")[1].split(",")
    if a.startswith("--jobs="):
        jobs = int(a.split("=")[1])
man = json.load(open(os.path.join(HERE, "MANIFEST.json")))
claimed = {c["property_id"] for c in man["checks"]}


def one(d):
    meta = json.load(open(os.path.join(d, "meta.json")))
    todo = props or [meta["breaks_property"]]
    out = []
    for p in todo:
        if not os.path.exists(os.path.join(HERE, "vf", "checks", p.lower() + ".py")):
            out.append((p, "no-check"))
            continue
        r = subprocess.run([os.path.join(HERE, "tools", "runmut.sh"), os.path.join(d, "patch.diff"), p, tier],
                           capture_output=True, text=True, env=dict(os.environ, VF_MUT_LINES="2"))
        lines = r.stdout.strip().splitlines()
        rc = r.returncode
        verdict = {0: "MISSED", 1: "caught", 2: "harness-error", 3: "patch-does-not-apply"}.get(rc, "rc=%d" % rc)
        keys = [l.strip()[4:] for l in lines if l.strip().startswith("key=")]
        meta.setdefault("detected_by", {})["%s/%s" % (p, tier)] = {"verdict": verdict, "keys": keys[:2]}
        out.append((p, verdict + (" " + keys[0] if keys else "")))
    json.dump(meta, open(os.path.join(d, "meta.json"), "w"), indent=1)
    return meta["id"], out


dirs = sorted(glob.glob(os.path.join(HERE, "seeded", "*")))
if args:
    dirs = [d for d in dirs if any(os.path.basename(d).startswith(a) for a in args)]
with ThreadPoolExecutor(jobs) as ex:
    for name, out in ex.map(one, dirs):
        for p, v in out:
            print("%-8s %-5s %s" % (name, p, v))

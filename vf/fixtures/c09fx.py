"""Functions for the concurrency scenarios (C09, C10 concurrent part). Bodies announce themselves.

g / h carry explicit versions; the others are automatically versioned (so the run-time dependency
check applies to them) and form a small call tree: top1 -> mid -> leaf, top2 -> mid -> leaf;
solo_a and solo_b call nothing and are in nobody's dependency closure.
"""
import sys

import twosigma.memento as m
from twosigma.memento.exception import NonMemoizedException


@m.memento_function(cluster="vfc", version="1")
def g(x):
    sys.audit("vf.body", "g", x)
    return "val-%s" % x


@m.memento_function(cluster="vfc", version="1")
def h(x):
    sys.audit("vf.body", "h", x)
    return "other-%s" % x


@m.memento_function(cluster="vfc", version="1")
def gnone(x):
    sys.audit("vf.body", "gnone", x)
    return None


@m.memento_function(cluster="vfc")
def solo_a(x):
    sys.audit("vf.body", "solo_a", x)
    return "a-%s" % x


@m.memento_function(cluster="vfc")
def solo_b(x):
    sys.audit("vf.body", "solo_b", x)
    return "b-%s" % x


@m.memento_function(cluster="vfc")
def leaf(x):
    sys.audit("vf.body", "leaf", x)
    return "leaf-%s" % x


@m.memento_function(cluster="vfc")
def mid(x):
    sys.audit("vf.body", "mid", x)
    return "mid(%s)" % leaf(x)


@m.memento_function(cluster="vfc")
def top1(x):
    sys.audit("vf.body", "top1", x)
    return "top1(%s)" % mid(x)


@m.memento_function(cluster="vfc")
def top2(x):
    sys.audit("vf.body", "top2", x)
    return "top2(%s)" % mid(x)


class Transient(NonMemoizedException):
    pass


_runs = {}      # x -> number of body executions of flaky(x) so far (reset by the harness per execution)
_inside = set()  # x currently inside the body of flaky(x)


@m.memento_function(cluster="vfc", version="1")
def flaky(x):
    """First execution fails with a not-to-be-memoized exception, later ones succeed. Two executions of the body for
    the same argument must never overlap (the per-call mutex serialises them)."""
    sys.audit("vf.body", "flaky", x)
    if x in _inside:
        sys.audit("vf.body", "OVERLAP", x)
    _inside.add(x)
    try:
        _runs[x] = _runs.get(x, 0) + 1
        n = _runs[x]
        if n == 1:
            raise Transient("first attempt of flaky(%s) fails" % x)
        return "flaky-%s" % x
    finally:
        _inside.discard(x)


# the reference: what an un-memoized program returns, and the call tree below each call
CALLS = {"flaky": (), "gnone": (), "g": (), "h": (), "solo_a": (), "solo_b": (), "leaf": (), "mid": ("leaf",), "top1": ("mid",), "top2": ("mid",)}
_FMT = {"flaky": "flaky-%s", "g": "val-%s", "h": "other-%s", "solo_a": "a-%s", "solo_b": "b-%s", "leaf": "leaf-%s", "mid": "mid(%s)",
        "top1": "top1(%s)", "top2": "top2(%s)"}


def expected(fn, x):
    if fn == "gnone" or fn.endswith("!ignore"):
        return None
    inner = CALLS[fn]
    return _FMT[fn] % (expected(inner[0], x) if inner else x)


def closure(fn, x):
    """All distinct (function, argument) calls made by fn(x), itself included, in call order."""
    fn = fn.split("!")[0]
    out = [(fn, x)]
    for c in CALLS[fn]:
        out += closure(c, x)
    return out

"""Helpers for driving storage backends directly with real references and mementos."""
import datetime
import hashlib
import os

from twosigma.memento import FunctionReference, Memento, InvocationMetadata
from twosigma.memento.metadata import ResultType
from twosigma.memento.exception import MementoException

from .fixtures import store as fx

CLUSTER = "vfc"

# symbolic function alphabet -> (fixture attribute, crafted version)
FNS = {
    "fn#1": ("fn", "1"),
    "fn#10": ("fn", "10"),
    "fn1#1": ("fn1", "1"),
    "gn#1": ("gn", "1"),
}

_ref_cache = {}


def ref(sym: str) -> FunctionReference:
    if sym not in _ref_cache:
        attr, ver = FNS[sym]
        _ref_cache[sym] = FunctionReference(getattr(fx, attr), cluster_name=CLUSTER, version=ver)
    return _ref_cache[sym]


_fra_cache = {}


def refargs(sym: str, arg):
    k = (sym, repr(arg))
    if k not in _fra_cache:
        _fra_cache[k] = ref(sym).with_args(arg)
    return _fra_cache[k]


def rah(sym: str, arg):
    return refargs(sym, arg).fn_reference_with_arg_hash()


def qname(sym: str) -> str:
    return ref(sym).qualified_name


_T0 = datetime.datetime(2020, 1, 2, 3, 4, 5, tzinfo=datetime.timezone.utc)


def mk_memento(sym: str, arg, value, tick: int = 0) -> Memento:
    fra = refargs(sym, arg)
    if isinstance(value, BaseException) and not isinstance(value, MementoException):
        value = MementoException.from_exception(value)
    return Memento(
        time=_T0 + datetime.timedelta(seconds=tick),
        invocation_metadata=InvocationMetadata(
            runtime=datetime.timedelta(seconds=1.5),
            fn_reference_with_args=fra,
            result_type=ResultType.from_object(value),
            invocations=[],
            resources=[],
        ),
        function_dependencies={fra.fn_reference},
        runner={"type": "local"},
        correlation_id="cid_%d" % tick,
        content_key=None,
    )


def tree_digest(root: str):
    """(relative path, size, sha256) of every file + every directory name under root."""
    out = []
    if not os.path.isdir(root):
        return ()
    for dp, dn, fn in os.walk(root):
        dn.sort()
        rel = os.path.relpath(dp, root)
        out.append(("D", rel))
        for f in sorted(fn):
            p = os.path.join(dp, f)
            with open(p, "rb") as fh:
                b = fh.read()
            out.append(("F", os.path.join(rel, f), len(b), hashlib.sha256(b).hexdigest()))
    return tuple(out)

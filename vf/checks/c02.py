"""C02 - memoization is transparent: same outcome, body runs once per distinct call.

Bounded-exhaustive enumeration of result values (atoms of every documented result type, numpy
arrays of the seven dtypes, pandas index/series/frame, partitions, exception classes; closed
under list / dict to a depth) x backends {memory, filesystem, filesystem + cache smaller than
the value / 4 KiB / 1 MiB} x call modifiers {none, ignore_result, force_local}; per case the
sequence call, call, memento(), forget, call, call is compared with the plain function.
"""
import datetime
import math
import os

from ..core import scratch_dir, rm, pmap

MB = 1024 * 1024
BACKENDS = {"mem": None, "fs": 0, "fsc-tiny": 8, "fsc-4k": 4096, "fsc-1m": MB}


def mk(kind, root):
    from twosigma.memento.storage_filesystem import FilesystemStorageBackend
    from twosigma.memento.storage_memory import MemoryStorageBackend

    if kind == "mem":
        return MemoryStorageBackend()
    c = BACKENDS[kind]
    return FilesystemStorageBackend(path=root, memory_cache_mb=(c / MB) if c else None)


def eq(a, b):
    import numpy as np
    import pandas as pd
    from twosigma.memento.partition import Partition

    if isinstance(a, Partition) or isinstance(b, Partition):
        if not (isinstance(a, Partition) and isinstance(b, Partition)):
            return False
        ka, kb = list(a.list_keys()), list(b.list_keys())
        return ka == kb and all(eq(a.get(k), b.get(k)) for k in ka)
    if type(a) is not type(b):
        return False
    if isinstance(a, float):
        return (math.isnan(a) and math.isnan(b)) or (a == b and math.copysign(1, a) == math.copysign(1, b))
    if isinstance(a, np.ndarray):
        return a.dtype == b.dtype and a.shape == b.shape and np.array_equal(a, b, equal_nan=a.dtype.kind == "f")
    if isinstance(a, (pd.DataFrame, pd.Series, pd.Index)):
        return a.equals(b) and (not isinstance(a, pd.DataFrame) or list(a.dtypes) == list(b.dtypes))
    if isinstance(a, (list, tuple)):
        return len(a) == len(b) and all(eq(x, y) for x, y in zip(a, b))
    if isinstance(a, dict):
        return set(a) == set(b) and all(eq(a[k], b[k]) for k in a)
    if isinstance(a, datetime.datetime):
        return a == b and a.utcoffset() == b.utcoffset()
    return a == b


def use_value(v):
    """'Equally usable': touch the object the way a caller would."""
    import pandas as pd
    from twosigma.memento.partition import Partition

    if isinstance(v, Partition):
        return [(k, type(v.get(k)).__name__) for k in v.list_keys()]
    if isinstance(v, (pd.DataFrame, pd.Series, pd.Index)):
        return len(v)
    if isinstance(v, (list, dict)):
        return [use_value(x) for x in (v.values() if isinstance(v, dict) else v)]
    return None


def outcome(fn):
    try:
        v = fn()
        use_value(v)
        return ("val", v)
    except Exception as e:
        return ("exc", e)


def same_outcome(got, want, replayed):
    """want is the plain outcome. For replayed exceptions: same class when it can be rebuilt from its
    message, else MementoException; original message preserved (as prefix)."""
    from twosigma.memento.exception import MementoException

    if want[0] == "val":
        return got[0] == "val" and eq(got[1], want[1])
    if got[0] != "exc":
        return False
    ge, we = got[1], want[1]
    same_class = (type(ge).__module__, type(ge).__qualname__) == (type(we).__module__, type(we).__qualname__)
    if not replayed:
        return same_class and str(ge) == str(we)
    msg = str(we)
    # (the text before the appended stack trace: the trace itself quotes the original exception and proves nothing)
    head = lambda t: t.split(". Original stack trace follows")[0]  # noqa
    if rebuildable(we):
        # importable and constructible from one string: the replay must be of the same class
        return same_class and (str(ge).startswith(msg) or msg.strip("'") in head(str(ge)))
    return isinstance(ge, MementoException) and msg.strip("'") in head(ge.message)


def rebuildable(e):
    import importlib

    cls = type(e)
    if "<locals>" in cls.__qualname__:
        return False
    try:
        ref = importlib.import_module(cls.__module__)
        for part in cls.__qualname__.split("."):
            ref = getattr(ref, part)
        if ref is not cls:
            return False
    except Exception:
        return False
    try:
        cls("x")
        return True
    except TypeError:
        return False


def case(args):
    import twosigma.memento as m
    from twosigma.memento.exception import MementoException, NonMemoizedException
    from twosigma.memento.metadata import ResultType
    from .. import audit
    from ..fixtures import c02fx as fx

    kind, name, modifier = args
    top = scratch_dir("c02")
    out = {"evaluations": 1, "states": 1, "transitions": 6, "traces": 1, "violations": [], "outcomes": []}
    try:
        b = mk(kind, os.path.join(top, "s"))
        m.Environment.set(m.Environment(name="e", base_dir=top, repos=[m.ConfigurationRepository(name="r", clusters={"vfc": m.FunctionCluster(name="vfc", storage=b)})]))
        base = fx.kov if modifier == "override" else fx.val
        f = base
        if modifier == "ignore":
            f = f.ignore_result()
        elif modifier == "local":
            f = f.force_local()
        elif modifier == "ctx":  # the same call under context arguments is another call than the plain one
            f = f.with_context_args({"tenant": "t1"})
        want = outcome(lambda: fx.plain(name))
        transient = want[0] == "exc" and isinstance(want[1], NonMemoizedException)
        if want[0] == "exc":
            # every other exception class of the alphabet has been recorded and replayed in this process before
            for other in fx.EXCS:
                if other != name.split(":")[-1]:
                    for _ in range(2):
                        try:
                            fx.val(other)
                        except Exception:
                            pass
        if modifier == "ctx":
            try:
                fx.val(name)  # the plain call with the same argument: must stay memoized when the context call is forgotten
            except Exception:
                pass
        base("__neighbour")  # a neighbour call of the same function that must stay memoized
        if not transient and want[0] == "val" and modifier != "override":
            try:
                fx.twin(name)  # another function with a byte-identical result (shared stored object)
            except Exception:
                pass
        steps = []
        bad = None

        def call(label, expect_bodies, replayed):
            nonlocal bad
            audit.bodies_reset()
            got = outcome(lambda: f(name))
            n = len([x for x in audit.bodies() if x[1] == name])
            steps.append((label, got[0], n))
            if bad:
                return
            if n != expect_bodies:
                bad = ("%s-body-count" % label, "%s: body ran %d times, expected %d" % (label, n, expect_bodies))
                return
            if modifier == "ignore" and want[0] == "val":
                ok = got == ("val", None)
            else:
                ok = same_outcome(got, want, replayed and not transient)
            if not ok:
                if got[0] == "exc" and want[0] == "val":
                    what = "raised"
                elif got[0] == "exc":
                    what = "exception-replay:%s" % type(got[1]).__name__
                elif want[0] == "exc":
                    what = "exception-not-replayed"
                else:
                    what = "value-differs"
                bad = ("%s-%s" % (label, what), "%s: got %s, plain function gives %s" % (label, _short(got), _short(want)))

        call("first", 1, False)
        call("second", 1 if transient else 0, True)
        if not bad:
            mm = (f if modifier == "ctx" else base).memento(name)
            if transient:
                if mm is not None:
                    bad = ("recorded-not-to-be-memoized", "an exception marked not-to-be-memoized was recorded")
            elif mm is None:
                bad = ("no-memento", "memento() found nothing after two calls")
            else:
                try:
                    back = b.read_result(mm)
                    rt = ResultType.from_object(back)
                except Exception as e:
                    back, rt = None, "EXC:%r" % (e,)
                if mm.invocation_metadata.result_type != rt:
                    bad = ("result-type", "recorded result type %s, value read back classifies as %s" % (mm.invocation_metadata.result_type, rt))
        if not bad:
            (f if modifier == "ctx" else base).forget(name)
            call("after-forget", 1, False)
            call("after-forget-second", 1 if transient else 0, True)
        if not bad and not transient:
            # other function-level routes to the same entry: custom metadata, the table listing, forgetting through the memento
            g = f if modifier == "ctx" else base
            try:
                g.put_metadata("note", b"payload-" + name.encode(), name)
                got_md = g.get_metadata("note", args=(name,))
                if got_md != b"payload-" + name.encode():
                    bad = ("metadata-round-trip", "get_metadata returned %r" % (got_md,))
                elif modifier == "ctx" and fx.val.get_metadata("note", args=(name,)) is not None:
                    bad = ("metadata-scope", "metadata written for the call under context arguments is served for the plain call")
                if not bad:
                    tbl = g.list()
                    rows = [] if tbl is None else [r for r in tbl.to_dict("records") if r.get("name") == name]
                    if len(rows) != 1 or rows[0].get("result_type") != g.memento(name).invocation_metadata.result_type.name:
                        bad = ("table-listing", "list() shows %r for this call" % (rows,))
                if not bad:
                    g.memento(name).forget()
                    call("after-memento-forget", 1, False)
                    call("after-memento-forget-second", 0, True)
            except Exception as e:
                bad = bad or ("function-level-route-raised", "put_metadata / get_metadata / list / memento().forget raised %r" % (e,))
        if not bad:
            audit.bodies_reset()
            nb = outcome(lambda: base("__neighbour"))
            if audit.bodies():
                bad = ("forget-scope", "forgetting one call made another call of the same function run again")
            elif nb != ("val", "neighbour"):
                bad = ("neighbour-value", "the neighbour call of the same function now returns %s" % _short(nb))
        if not bad and modifier == "ctx" and not transient:
            audit.bodies_reset()
            outcome(lambda: fx.val(name))
            if audit.bodies():
                bad = ("forget-scope-context", "forgetting the call made under context arguments made the plain call with the same argument run again")
        if not bad and not transient and want[0] == "val" and modifier != "override":
            audit.bodies_reset()
            got = outcome(lambda: fx.twin(name))
            if [x for x in audit.bodies() if x[0] == "twin"]:
                bad = ("forget-hit-shared-result", "after forgetting val(%s), twin(%s) with the same result bytes ran its body again" % (name, name))
            elif not same_outcome(got, want, True):
                bad = ("forget-broke-shared-result", "after forgetting val(%s), twin(%s) returns %s" % (name, name, _short(got)))
        if not bad and not transient and modifier is None and want[0] == "val":
            # batch form: a cached / memoized element followed by one that is not memoized yet
            fx.val.forget("__neighbour")
            audit.bodies_reset()
            try:
                r = fx.val.call_batch([{"name": name}, {"name": "__neighbour"}, {"name": name}])
                if not (eq(r[0], want[1]) and r[1] == "neighbour" and eq(r[2], want[1])):
                    bad = ("batch-slot", "call_batch([memoized, new, memoized]) returned %.80r" % (r,))
                elif [x[1] for x in audit.bodies()] != ["__neighbour"]:
                    bad = ("batch-body-count", "call_batch ran bodies %s" % [x[1] for x in audit.bodies()])
            except Exception as e:
                bad = ("batch-raised", "call_batch raised %r" % (e,))
        if bad:
            vclass = name.split(":")[-1].split("-")[0] + ("+nested" if ":" in name else "")
            if name.startswith("exc"):
                vclass = name
            sig = "%s|%s|%s|%s" % ("fs+cache" if kind.startswith("fsc") else kind, modifier or "plain", vclass, bad[0])
            out["violations"].append((sig, bad[1] + "\nbackend=%s value=%s modifier=%s steps=%s" % (kind, name, modifier, steps),
                                      {"case": [kind, name, modifier]}))
        out["outcomes"].append("%s|%s|%s" % (kind, name, modifier))
    finally:
        rm(top)
    return out


def _short(o):
    if o[0] == "exc":
        return "raise %s(%s)" % (type(o[1]).__name__, str(o[1])[:50])
    return "%s %.50r" % (type(o[1]).__name__, o[1])


def names(tier):
    from ..fixtures import c02fx as fx

    atoms = list(fx.ATOMS)
    out = atoms + list(fx.EXCS)
    nest = [a for a in atoms if not a.startswith("partition")]
    out += ["list:" + a for a in nest] + ["dict:" + a for a in nest]
    if tier == "thorough":
        out += ["%s:%s:%s" % (x, y, a) for x in ("list", "dict") for y in ("list", "dict") for a in nest]
    return out


def run(ctx):
    thorough = ctx.tier == "thorough"
    ctx.rule = ("result values: %d atoms (None, bool, ints, floats incl. -0.0/NaN/inf, str, bytes, date, naive/aware datetime, "
                "Timestamp, numpy arrays of 7 dtypes empty/len 1/with NaN, Index/Series/DataFrame empty/tiny/object/NaN, in-memory and "
                "on-disk partitions) + 7 exception classes, closed under list/dict to depth %d x {memory, filesystem, fs+cache 8 B / "
                "4 KiB / 1 MiB} x {plain, ignore_result, force_local, all calls stored under one shared key override, under context arguments}; exception values after every other exception class of the alphabet (incl. a same-named class of another module) was recorded and replayed in the process; sequence call, call, memento(), forget, call, call, put/get_metadata, list(), memento().forget(), call, call + "
                "neighbour call stays memoized. distinct = (backend, value, modifier)." % (len(names("quick")) - 7, 2 if thorough else 1))
    ctx.assumptions += ["pandas values have <= 100 rows (the cache's size estimator samples above that)",
                        "a replayed exception keeps its class when the class is importable and constructible from one string, otherwise "
                        "the memoized-exception type carrying the original message"]
    ns = names(ctx.tier)
    tasks = []
    for kind in BACKENDS:
        for n in ns:
            for mod in (None, "ignore", "local", "override", "ctx"):
                if not thorough and mod and kind not in ("fs", "fsc-4k") and ":" in n:
                    continue
                if mod == "override" and (n.startswith("exc") or ":exc" in n):
                    continue  # a key override wraps a returned value
                tasks.append((kind, n, mod))
    if ctx.seed:
        import random

        random.Random(ctx.seed).shuffle(tasks)
    a = case(tasks[11])
    b = case(tasks[11])
    ctx.selfcheck("one case gives identical observations twice", a["violations"] == b["violations"])
    ctx.merge(pmap(case, tasks, chunksize=8))
    ctx.extra["values"] = len(ns)
    ctx.extra["cases"] = len(tasks)
    ctx.sample({"case": list(tasks[3])})
    ctx.sample({"case": list(tasks[-1])})


def replay(ctx, art):
    r = case(tuple(art["artefact"]["case"]))
    for v in r["violations"]:
        print(v[0], "\n", v[1])
    print("REPLAY property=C02 result=%s" % bool(r["violations"]))
    return 1 if r["violations"] else 0

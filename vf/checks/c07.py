"""C07 - result blobs are content-addressed, deduplicated and immutable once referenced.

Same exploration as C05 on the filesystem backend (with/without cache, shared/separate metadata
path), alphabet extended with byte-identical results from different calls and functions,
partition results, exception results and key-override writes to one shared key; after every
transition the whole data store is scanned (engine: vf/storemc.py, StoreRun.integrity).
"""
from .. import storemc
from ..storemc import KEYS
from . import c09


def configs(tier, seed):
    cfgs = []
    if tier == "quick":
        for b in ("fs", "fsc4"):
            cfgs.append(("c07", b, KEYS, ("s", "D", "P", "N"), False, 2, seed))
        for b in ("fs+m", "fsc4+m"):
            cfgs.append(("c07", b, [KEYS[0], KEYS[2]], ("s", "D", "P", "E"), False, 3, seed))
        cfgs.append(("c07", "fs", [KEYS[0], KEYS[2]], ("s", "D", "G"), False, 3, seed))  # metadata under the data path; G: a result that pickles differently each time
        # every history kept apart (no state merging) on a small alphabet
        cfgs.append(("c07nm", "fs", [KEYS[0], KEYS[2]], ("D",), True, 3, seed))
        cfgs.append(("c07nm", "fsc4", [KEYS[0], KEYS[2]], ("D",), True, 3, seed))
        cfgs.append(("c07p", "fs", [KEYS[0], KEYS[2]], ("P",), False, 4, seed))
        cfgs.append(("c07p", "fsc4", [KEYS[0], KEYS[2]], ("P",), False, 4, seed))
    else:
        for b in ("fs", "fs+m", "fsc4", "fsc4+m"):
            cfgs.append(("c07", b, KEYS, ("s", "D", "P", "N", "E"), False, 3, seed))
        for b in ("fs", "fsc4"):
            cfgs.append(("c07", b, [KEYS[0], KEYS[2]], ("s", "D", "P"), False, 4, seed))
            cfgs.append(("c07", b, [KEYS[0], KEYS[2]], ("G", "D"), False, 4, seed))
            cfgs.append(("c07p", b, [KEYS[0], KEYS[2]], ("P",), False, 5, seed))
    return cfgs


def run(ctx):
    ctx.rule = ("C05 history BFS on the filesystem backend with value classes s (unique), D (byte-identical across "
                "calls and functions), P (partition: index + per-key blobs), None, exception, and key-override writes "
                "of s/t/None/D/P to one shared key; after every transition: sha256(bytes)==key for every object, every "
                "link names bytes hashing to it, at most one object per content key, every live memento re-reads "
                "exactly its original bytes. distinct = canonical real states.")
    ctx.assumptions += ["layout c/<sha256>.link -> c/.versions/<uuid>/<sha256> as documented in _FilesystemDataSource"]
    c0 = ("c07", "fs", KEYS, ("s", "D"), False, 3, 0)
    h = (("memo", 0, "D", None), ("memo", 2, "D", None), ("memo", 0, "s", storemc.OVK), ("fc", 2))
    ctx.selfcheck("same history twice gives the same canonical state",
                  storemc.build(c0, h).canon() == storemc.build(c0, h).canon())
    storemc.run_configs(ctx, configs(ctx.tier, ctx.seed))
    from ..core import pmap

    ctx.merge(pmap(size_case, SIZES, chunksize=1))
    # two writers at the same time: of one key override (each memento must keep reading its own bytes), and of byte-
    # identical results (one object); afterwards a fresh backend serves every call
    cs = [("fs|cold|shared-override+readback", "fs", "cold", [[("ko", 1)], [("ko", 2)]]),
          ("fs|cold|equal-results+readback", "fs", "cold", [[("same", 1)], [("same", 2)]])]
    if ctx.tier == "thorough":
        cs.append(("fs+cache-one|cold|shared-override+readback", "fs+cache-one", "cold", [[("ko", 1)], [("ko", 2)]]))
    c09.concurrent_part(ctx, cs, "readback", "two threads writing results under one key override / byte-identical results at the same time, "
                        "then every call read back through a fresh backend", bound=1, deep=(2, "runner", "calls") if ctx.tier == "thorough" else None)
    ctx.extra["serialized_sizes_swept"] = SIZES


SIZES = [4095, 4096, 4097, 65535, 65536, 65537, 131071, 131072, 131073, 1048575, 1048576, 1048577, 2097151, 2097152, 2097153]


def size_case(n):
    """A result whose serialized form has exactly n bytes (buffer / chunk boundaries)."""
    import pickle

    from ..core import scratch_dir, rm
    from ..storemc import StoreRun

    out = {"evaluations": 1, "states": 1, "transitions": 2, "traces": 1, "violations": [], "outcomes": ["size:%d" % n]}
    top = scratch_dir("c07s")
    try:
        run = StoreRun("fs", top + "/store", [KEYS[0], KEYS[2]])
        pad = n - len(pickle.dumps("", protocol=5))
        while True:
            val = "v%06d" % 1 + "z" * max(0, pad - 7)
            d = len(pickle.dumps(val, protocol=5)) - n
            if d == 0:
                break
            pad -= d
        import vf.storemc as sm

        orig = sm.value_of
        sm.value_of = lambda cls, tick, budget: (val if cls == "Z" else orig(cls, tick, budget))
        try:
            bad = run.step(("memo", 0, "Z", None)) or run.integrity() or run.step(("read", 0)) or run.step(("memo", 1, "Z", None)) or run.integrity()
        finally:
            sm.value_of = orig
        if bad:
            out["violations"].append(("size|%s|%s" % ("2^k" if n & (n - 1) == 0 else "2^k+1" if (n - 1) & (n - 2) == 0 else "2^k-1", bad[0]),
                                      "result with a serialized size of exactly %d bytes: %s" % (n, bad[1]), {"size": n}))
    finally:
        rm(top)
    return out


def replay(ctx, art):
    if "scn" in art["artefact"]:
        return c09.replay_concurrent("C07", art)
    if "size" in art["artefact"]:
        r = size_case(art["artefact"]["size"])
        print(r["violations"])
        return 1 if r["violations"] else 0
    return storemc.replay_history(art)

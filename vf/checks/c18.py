"""C18 - declarative configuration is honoured, ordered, and reproducible from its dump.

Full matrix of backend options x four ways of supplying them (constructor arguments, inline
dict, JSON files, YAML file with a template parameter) x explicit arguments contradicting the
file; repository lists with duplicated cluster names in every order, with prepend / append after
a first resolution; Environment(config=env.to_dict()).  Oracle: behavioural probes equal to the
constructor-built twin.
"""
import itertools
import json
import os

from ..core import scratch_dir, rm, pmap
from .. import audit

MB = 1024 * 1024


def options():
    out = []
    for st in ("filesystem", "memory", "null"):
        for meta in ((False, True) if st == "filesystem" else (False,)):
            for cache in ((None, 1, 0.5) if st == "filesystem" else (None,)):
                for ro in (None, False, True):
                    for runner in (None, "local", "null"):
                        out.append({"type": st, "meta": meta, "cache": cache, "readonly": ro, "runner": runner})
    return out


def storage_dict(o, base):
    d = {"type": o["type"]}
    if o["type"] == "filesystem":
        d["path"] = os.path.join(base, "d")
        if o["meta"]:
            d["metadata_path"] = os.path.join(base, "md")
        if o["cache"]:
            d["memory_cache_mb"] = o["cache"]
    if o["readonly"] is not None:
        d["readonly"] = o["readonly"]
    return d


def ctor_cluster(o, base, name="ca"):
    import twosigma.memento as m
    from twosigma.memento.runner_local import LocalRunnerBackend
    from twosigma.memento.runner_null import NullRunnerBackend
    from twosigma.memento.storage_filesystem import FilesystemStorageBackend
    from twosigma.memento.storage_memory import MemoryStorageBackend
    from twosigma.memento.storage_null import NullStorageBackend

    if o["type"] == "filesystem":
        st = FilesystemStorageBackend(path=os.path.join(base, "d"), metadata_path=os.path.join(base, "md") if o["meta"] else None,
                                      memory_cache_mb=o["cache"], read_only=o["readonly"])
    elif o["type"] == "memory":
        st = MemoryStorageBackend(read_only=o["readonly"])
    else:
        st = NullStorageBackend()
    rn = None if o["runner"] is None else (LocalRunnerBackend() if o["runner"] == "local" else NullRunnerBackend())
    return m.FunctionCluster(name=name, storage=st, runner=rn)


def cluster_dict(o, base, name="ca"):
    d = {"name": name, "storage": storage_dict(o, base)}
    if o["runner"]:
        d["runner"] = {"type": o["runner"]}
    return d


def build_env(o, base, how, name="ca"):
    """Environment with one repository defining cluster `name` from options o, supplied `how`."""
    import twosigma.memento as m
    import yaml

    if how == "ctor":
        return m.Environment(name="e", base_dir=base, repos=[m.ConfigurationRepository(name="r", clusters={name: ctor_cluster(o, base, name)})])
    if how == "dict":
        return m.Environment(config={"name": "e", "base_dir": base, "repos": [{"name": "r", "clusters": {name: cluster_dict(o, base, name)}}]})
    if how == "dict-reused":  # the same configuration object had been used to build an environment before
        cfgd = {"name": "e", "base_dir": base, "repos": [{"name": "r", "clusters": {name: cluster_dict(o, base, name)}}]}
        m.Environment(config=cfgd)
        return m.Environment(config=cfgd)
    cfg = os.path.join(base, "cfg")
    os.makedirs(cfg, exist_ok=True)
    if how == "json":
        json.dump(cluster_dict(o, base, name), open(os.path.join(cfg, "cluster.json"), "w"))
        json.dump({"name": "r", "clusters": {name: "cluster.json"}}, open(os.path.join(cfg, "repo.json"), "w"))
        json.dump({"name": "e", "repos": ["repo.json"]}, open(os.path.join(cfg, "env.json"), "w"))
        return m.Environment(m.configuration._load_config(cfg, "env.json"))
    if how == "json-nested":
        # two levels of relative references: the environment file names the repository file relative to itself, and the
        # repository file (in another directory) names the cluster file relative to ITSELF; a decoy of the same relative
        # name sits next to the environment file
        os.makedirs(os.path.join(cfg, "repos", "main", "clusters"), exist_ok=True)
        os.makedirs(os.path.join(cfg, "clusters"), exist_ok=True)
        json.dump(cluster_dict(o, base, name), open(os.path.join(cfg, "repos", "main", "clusters", "cluster.json"), "w"))
        decoy = {"name": name, "storage": {"type": "filesystem", "path": os.path.join(base, "decoy")}}
        json.dump(decoy, open(os.path.join(cfg, "clusters", "cluster.json"), "w"))
        json.dump({"name": "r", "clusters": {name: "clusters/cluster.json"}}, open(os.path.join(cfg, "repos", "main", "repo.json"), "w"))
        json.dump({"name": "e", "repos": ["repos/main/repo.json"]}, open(os.path.join(cfg, "env.json"), "w"))
        return m.Environment(m.configuration._load_config(cfg, "env.json"))
    if how == "yaml":
        cd = cluster_dict(o, "{{ root }}", name)
        text = yaml.safe_dump({"name": "r", "clusters": {name: cd}})
        open(os.path.join(cfg, "repo.yaml"), "w").write(text)
        repo = m.ConfigurationRepository.from_file(os.path.join(cfg, "repo.yaml"), root=base)
        return m.Environment(name="e", base_dir=base, repos=[repo])
    raise ValueError(how)


def probe(env, base, fn_name="fa"):
    """Behavioural observation vector of the cluster the function belongs to."""
    import twosigma.memento as m
    from ..fixtures import c18fx as fx

    m.Environment.set(env)
    f = getattr(fx, fn_name)
    obs = {}

    def call(x):
        audit.bodies_reset()
        try:
            v = f(x)
            return ("val", v, len(audit.bodies()))
        except Exception as e:
            return ("exc", type(e).__name__, len(audit.bodies()))

    obs["call1"] = call(1)
    obs["call2"] = call(1)
    obs["data_under_path"] = os.path.isdir(os.path.join(base, "d", "c"))
    obs["mementos_under_path"] = os.path.isdir(os.path.join(base, "d", "m"))
    obs["mementos_under_metadata_path"] = os.path.isdir(os.path.join(base, "md", "m"))
    with audit.watch(base) as w:
        obs["call3"] = call(1)
    obs["third_call_opened_files"] = bool([e for e in w.reads if e[0] == "open-r"])
    for label, op in (("put_metadata", lambda: f.put_metadata("log", b"x", 1)), ("forget", lambda: f.forget(1))):
        try:
            op()
            obs[label] = "ok"
        except Exception as e:
            obs[label] = type(e).__name__
    obs["call4"] = call(1)
    return obs


def option_case(args):
    o, how = args
    top = scratch_dir("c18")
    out = {"evaluations": 1, "states": 1, "transitions": 2, "traces": 1, "violations": [], "outcomes": []}
    try:
        b1, b2 = os.path.join(top, "x", "w"), os.path.join(top, "y", "w")
        os.makedirs(b1)
        os.makedirs(b2)
        want = probe(build_env(o, b2, "ctor"), b2)
        try:
            got = probe(build_env(o, b1, how), b1)
        except Exception as e:
            import traceback

            got = {"build-or-probe-raised": "%r %s" % (e, traceback.format_exc(limit=3)[-300:])}
        if got != want:
            diff = sorted(k for k in set(got) | set(want) if got.get(k) != want.get(k))
            opt = _which_option(o, diff)
            sig = "option|%s|%s|differs:%s" % (how, opt, "+".join(diff)[:60])
            out["violations"].append((sig, "options %s given as %s behave differently from constructor arguments in %s:\n config-built: %s\n constructor:  %s"
                                      % (o, how, diff, {k: got.get(k) for k in diff}, {k: want.get(k) for k in diff}), {"option": [o, how]}))
        # dump -> rebuild
        if not out["violations"]:
            b3 = os.path.join(top, "z", "w")
            os.makedirs(b3)
            import twosigma.memento as m
            from ..fixtures import c18fx as fx

            env = build_env(o, b3, how)
            m.Environment.set(env)
            try:
                fx.fa(7)
            except Exception:
                pass
            try:
                env2 = m.Environment(config=env.to_dict())
                m.Environment.set(env2)
                audit.bodies_reset()
                try:
                    r = ("val", fx.fa(7))
                except Exception as e:
                    r = ("exc", type(e).__name__)
                nb = len(audit.bodies())
                persistent = o["type"] == "filesystem" and o["readonly"] is not True and o["runner"] != "null"
                if persistent and (nb != 0 or r != ("val", "a-7")):
                    out["violations"].append(("rebuild|%s|stored-result-not-found|meta=%s" % (how, o["meta"]),
                                              "a result written through the environment is not served through Environment(config=env.to_dict()): %s, bodies %d; dump=%s"
                                              % (r, nb, json.dumps(env.to_dict())[:300]), {"option": [o, how]}))
                else:
                    rm(b3)
                    os.makedirs(b3)
                    g3 = probe(m.Environment(config=build_env(o, b3, how).to_dict()), b3)
                    if g3 != want:
                        diff = sorted(k for k in set(g3) | set(want) if g3.get(k) != want.get(k))
                        out["violations"].append(("rebuild|%s|%s|differs:%s" % (how, _which_option(o, diff), "+".join(diff)[:60]),
                                                  "environment rebuilt from its dump behaves differently in %s (options %s)" % (diff, o), {"option": [o, how]}))
            except Exception as e:
                out["violations"].append(("rebuild|%s|raised:%s" % (how, type(e).__name__), "rebuilding from to_dict() raised %r" % (e,), {"option": [o, how]}))
        out["outcomes"].append("%s|%s" % (sorted(o.items()), how))
    finally:
        rm(top)
    return out


def _which_option(o, diff):
    if "third_call_opened_files" in diff and o["cache"]:
        return "memory_cache_mb"
    if any("metadata" in d or "mementos" in d for d in diff):
        return "metadata_path"
    if o["readonly"] and any(d in ("forget", "put_metadata", "call2") for d in diff):
        return "readonly"
    return "other"


def override_case(args):
    """An explicit argument contradicting the config wins."""
    which = args
    import twosigma.memento as m
    from twosigma.memento.runner_null import NullRunnerBackend
    from twosigma.memento.storage_filesystem import FilesystemStorageBackend
    from twosigma.memento.storage_memory import MemoryStorageBackend

    top = scratch_dir("c18o")
    out = {"evaluations": 1, "states": 1, "transitions": 2, "traces": 1, "violations": [], "outcomes": []}
    base_o = {"type": "filesystem", "meta": False, "cache": None, "readonly": None, "runner": None}

    def mk_env(A, B):
        """The environment whose cluster 'ca' is configured for directory A / option values X and overridden by explicit
        arguments pointing to B / other values. Returns (environment, options the result must behave like)."""
        cfgA = storage_dict(dict(base_o, meta=(which == "metadata_path")), A)
        st = None
        if which == "path":
            st = FilesystemStorageBackend(config=cfgA, path=os.path.join(B, "d"))
            want_o = base_o
        elif which == "metadata_path":
            st = FilesystemStorageBackend(config=dict(cfgA, path=os.path.join(B, "d")), metadata_path=os.path.join(B, "md"))
            want_o = dict(base_o, meta=True)
        elif which == "metadata_path-reset":  # the configuration separates the metadata, the argument puts it back under path
            st = FilesystemStorageBackend(config=storage_dict(dict(base_o, meta=True), B), metadata_path=os.path.join(B, "d"))
            want_o = base_o
        elif which == "memory_cache_mb":
            st = FilesystemStorageBackend(config=dict(storage_dict(base_o, B), memory_cache_mb=0), memory_cache_mb=1)
            want_o = dict(base_o, cache=1)
        elif which == "memory_cache_mb-zero":  # the configuration asks for a cache, the argument switches it off
            st = FilesystemStorageBackend(config=dict(storage_dict(base_o, B), memory_cache_mb=1), memory_cache_mb=0)
            want_o = base_o
        elif which == "readonly-true":
            st = FilesystemStorageBackend(config=dict(storage_dict(base_o, B), readonly=False), read_only=True)
            want_o = dict(base_o, readonly=True)
        elif which == "readonly-false":
            st = FilesystemStorageBackend(config=dict(storage_dict(base_o, B), readonly=True), read_only=False)
            want_o = dict(base_o, readonly=False)
        elif which == "storage-object":
            want_o = dict(base_o, type="memory")
        elif which == "runner-object":
            want_o = dict(base_o, runner="null")
        if which == "storage-object":
            cl = m.FunctionCluster(config=cluster_dict(base_o, B), storage=MemoryStorageBackend())
        elif which == "runner-object":
            cl = m.FunctionCluster(config=cluster_dict(dict(base_o, runner="local"), B), runner=NullRunnerBackend())
        else:
            cl = m.FunctionCluster(name="ca", storage=st)
        env = m.Environment(name="e", base_dir=B, repos=[m.ConfigurationRepository(config={"name": "r", "clusters": {"ca": cluster_dict(base_o, A)}},
                                                                                  clusters={"ca": cl})])
        return env, want_o

    try:
        A, B = os.path.join(top, "A", "w"), os.path.join(top, "B", "w")
        os.makedirs(A)
        os.makedirs(B)
        env, want_o = mk_env(A, B)
        got = probe(env, B)
        B2 = os.path.join(top, "B2", "w")
        os.makedirs(B2)
        want = probe(build_env(want_o, B2, "ctor"), B2)
        leaked = os.path.isdir(os.path.join(A, "d")) or os.path.isdir(os.path.join(A, "md"))
        if got != want or leaked:
            diff = sorted(k for k in set(got) | set(want) if got.get(k) != want.get(k)) + (["wrote-under-config-path"] if leaked else [])
            out["violations"].append(("override|%s|differs:%s" % (which, "+".join(diff)[:60]),
                                      "explicit argument %s does not override the configuration: differs in %s" % (which, diff), {"override": which}))
        elif which not in ("storage-object",):
            # the overridden environment, dumped and rebuilt, still behaves like the override
            A3, B3 = os.path.join(top, "A3", "w"), os.path.join(top, "B3", "w")
            os.makedirs(A3)
            os.makedirs(B3)
            env3, _ = mk_env(A3, B3)
            try:
                g3 = probe(m.Environment(config=env3.to_dict()), B3)
            except Exception as e:
                g3 = {"rebuild-raised": repr(e)[:200]}
            leaked = os.path.isdir(os.path.join(A3, "d")) or os.path.isdir(os.path.join(A3, "md"))
            if g3 != want or leaked:
                diff = sorted(k for k in set(g3) | set(want) if g3.get(k) != want.get(k)) + (["wrote-under-config-path"] if leaked else [])
                out["violations"].append(("override-rebuild|%s|differs:%s" % (which, "+".join(diff)[:60]),
                                          "environment with explicit argument %s, dumped with to_dict() and rebuilt, differs in %s: %s\ndump=%s"
                                          % (which, diff, {k: g3.get(k) for k in diff}, json.dumps(env3.to_dict())[:400]), {"override": which}))
        out["outcomes"].append("override|%s" % which)
    finally:
        rm(top)
    return out


def repo_argument_case(_):
    """An explicit clusters= argument of a repository replaces the clusters its configuration object names (it does not
    merge with them); and a cluster dumped once reflects later changes in the next dump."""
    import twosigma.memento as m
    from twosigma.memento.runner_null import NullRunnerBackend

    top = scratch_dir("c18r")
    out = {"evaluations": 2, "states": 2, "transitions": 2, "traces": 2, "violations": [], "outcomes": ["repo-argument", "dump-after-change"]}
    base_o = {"type": "filesystem", "meta": False, "cache": None, "readonly": None, "runner": None}
    try:
        A, B, C = (os.path.join(top, x, "w") for x in "ABC")
        for d in (A, B, C):
            os.makedirs(d)
        hi = m.ConfigurationRepository(config={"name": "hi", "clusters": {"ca": cluster_dict(base_o, A, "ca"), "cb": cluster_dict(base_o, A, "cb")}},
                                       clusters={"ca": ctor_cluster(base_o, B, "ca")})
        lo = m.ConfigurationRepository(name="lo", clusters={"cb": ctor_cluster(base_o, C, "cb")})
        env = m.Environment(name="e", base_dir=top, repos=[hi, lo])
        for e_, label in ((env, "live"), (m.Environment(config=env.to_dict()), "rebuilt")):
            got = {n: (None if e_.get_cluster(n) is None else e_.get_cluster(n).storage.to_dict().get("path")) for n in ("ca", "cb", "cz")}
            want = {"ca": os.path.join(B, "d"), "cb": os.path.join(C, "d"), "cz": None}
            if got != want:
                out["violations"].append(("repository|clusters-argument|%s|resolution-differs" % label,
                                          "repository built from a config naming clusters ca, cb AND an explicit clusters={ca: …}: names resolve to %s, expected %s" % (got, want), {"repo_argument": True}))
                break
        # dump, change, dump again
        D = os.path.join(top, "D", "w")
        os.makedirs(D)
        env = build_env(base_o, D, "ctor")
        env.to_dict()
        m.Environment.set(env)
        from ..fixtures import c18fx as fx

        fx.fa(1)  # (a call logs the environment, i.e. dumps it)
        cl = env.get_cluster("ca")
        cl.storage.read_only = True
        cl.runner = NullRunnerBackend()
        d2 = env.to_dict()
        cd = d2["repos"][0]["clusters"]["ca"]
        if not cd["storage"].get("readonly") or cd.get("runner", {}).get("type") != "null":
            out["violations"].append(("dump|after-change|stale", "after the cluster's store was made read-only and its runner replaced, to_dict() still says %s" % json.dumps(cd)[:300], {"repo_argument": True}))
    finally:
        rm(top)
    return out


def _register_child(top, what, regs, how):
    """A provider registers a storage / runner type, environments are built from a configuration naming it; the provider
    registers a newer class under the same name (regs times in all). Whatever is built afterwards from the configuration -
    directly, through create(), or from the dump of the earlier environment - is an instance of the class registered last."""
    import twosigma.memento as m
    from twosigma.memento import RunnerBackend, StorageBackend
    from twosigma.memento.runner_local import LocalRunnerBackend
    from twosigma.memento.storage_memory import MemoryStorageBackend

    TYPE = "vf-registered-%s" % what
    classes = []
    for g in range(regs):
        if what == "runner":
            def init(self, config=None):
                LocalRunnerBackend.__init__(self, config)
                self.runner_type = TYPE
            classes.append(type("RunnerV%d" % g, (LocalRunnerBackend,), {"generation": g, "__init__": init, "to_dict": lambda self: {"type": TYPE}}))
        else:
            def init(self, config=None, read_only=None):
                MemoryStorageBackend.__init__(self, config, read_only)
                self.storage_type = TYPE
            classes.append(type("StoreV%d" % g, (MemoryStorageBackend,), {"generation": g, "__init__": init, "to_dict": lambda self: {"type": TYPE}}))
    reg = RunnerBackend.register if what == "runner" else StorageBackend.register

    def config():
        cl = {"name": "ca", "storage": {"type": "filesystem", "path": os.path.join(top, "s")}}
        if what == "runner":
            cl["runner"] = {"type": TYPE}
        else:
            cl["storage"] = {"type": TYPE}
        return {"name": "e", "base_dir": top, "repos": [{"name": "r", "clusters": {"ca": cl}}]}

    def part(env):
        c = env.get_cluster("ca")
        return c.runner if what == "runner" else c.storage

    obs = []
    dump = None
    for g, cls in enumerate(classes):
        reg(TYPE, cls)
        if how == "config":
            got = part(m.Environment(config=config()))
        elif how == "create":
            got = (RunnerBackend.create if what == "runner" else StorageBackend.create)(TYPE, {"type": TYPE})
        else:  # the dump of the environment built under the previous registration
            got = part(m.Environment(config=dump if dump is not None else config()))
        obs.append((g, getattr(got, "generation", "not-a-registered-class:%s" % type(got).__name__)))
        dump = m.Environment(config=config()).to_dict()
    return obs


def register_case(args):
    from .. import farm
    from ..core import HarnessError

    what, regs, how = args
    top = scratch_dir("c18g")
    out = {"evaluations": 1, "states": regs, "transitions": regs, "traces": 1, "violations": [], "outcomes": ["register|%s|%d|%s" % args]}
    try:
        obs = farm.fork_call(_register_child, top, what, regs, how)
    except farm.ChildFailed as e:
        raise HarnessError("registration child failed for %s: %s" % (args, e))
    finally:
        rm(top)
    for g, got in obs:
        if got != g:
            out["violations"].append(("register|%s|%s|stale-class" % (what, how), "after registration #%d of the %s type, a %s built from %s is generation %s"
                                      % (g + 1, what, what, {"config": "the configuration", "create": "create()", "dump": "the dump of the earlier environment"}[how], got),
                                      {"register": list(args)}))
            break
    return out


def priority_case(args):
    """Repository priority: first repository defining the name wins; also after prepend / append."""
    import twosigma.memento as m

    repos_spec, later = args[:2]  # repos_spec: tuple of tuples of cluster names; later: (op, names) or None
    alias = args[2] if len(args) > 2 else None  # the clusters' own name field differs from the key they are registered under
    top = scratch_dir("c18p")
    out = {"evaluations": 1, "states": 1, "transitions": 1, "traces": 1, "violations": [], "outcomes": []}
    try:
        base_o = {"type": "filesystem", "meta": False, "cache": None, "readonly": None, "runner": None}

        def cname(n):
            if alias == "suffix":
                return n + "_own"
            if alias == "swap":
                return {"ca": "cb", "cb": "ca"}.get(n, n)
            return n

        def mkrepo(i, names):
            return m.ConfigurationRepository(name="r%d" % i, clusters={n: ctor_cluster(base_o, os.path.join(top, "r%d_%s" % (i, n)), cname(n)) for n in names})

        repos = [mkrepo(i, names) for i, names in enumerate(repos_spec)]
        env = m.Environment(name="e", base_dir=top, repos=list(repos))
        order = list(range(len(repos)))
        for n in ("ca", "cb", "cz"):
            env.get_cluster(n)  # a first resolution (warms anything that might be cached)
        if later:
            op, names = later
            r = mkrepo(9, names)
            repos.append(r)
            if op == "promote":  # an existing repository (the last one) is moved to the front by prepending it again
                repos.pop()
                env.prepend_repo(repos[-1])
                order = [len(repos) - 1] + order
            elif op == "prepend":
                env.prepend_repo(r)
                order = [len(repos) - 1] + order
            else:
                env.append_repo(r)
                order = order + [len(repos) - 1]
        spec = list(repos_spec) + ([later[1]] if later and later[0] != "promote" else [])
        for n, fn in (("ca", "fa"), ("cb", "fb"), ("cz", None)):
            want_i = next((i for i in order if n in spec[i]), None)
            got = env.get_cluster(n)
            if (got is None) != (want_i is None):
                out["violations"].append(("priority|%s|presence" % ("after-" + later[0] if later else "static"),
                                          "get_cluster(%s) = %r, expected %s (repos %s, then %s)" % (n, got, "a cluster" if want_i is not None else None, repos_spec, later), {"priority": [repos_spec, later, alias]}))
                break
            if got is None:
                continue
            want_cluster = repos[want_i].clusters[n]
            if got is not want_cluster:
                out["violations"].append(("priority|%s|wrong-repository" % ("after-" + later[0] if later else "static"),
                                          "get_cluster(%s) resolves to a lower-priority repository (repos %s, then %s)" % (n, repos_spec, later), {"priority": [repos_spec, later, alias]}))
                break
            # behavioural: the call lands in the first repository's store
            m.Environment.set(env)
            from ..fixtures import c18fx as fx

            getattr(fx, fn)(1)
            idx = 9 if (later and later[0] != "promote" and want_i == len(repos) - 1) else want_i
            if not os.path.isdir(os.path.join(top, "r%d_%s" % (idx, n), "d")):
                out["violations"].append(("priority|%s|stored-elsewhere" % ("after-" + later[0] if later else "static"),
                                          "a call in cluster %s did not store into the first repository defining it" % n, {"priority": [repos_spec, later, alias]}))
                break
        # dump and rebuild keeps the resolution
        env2 = m.Environment(config=env.to_dict())
        for n in ("ca", "cb", "cz"):
            a, b = env.get_cluster(n), env2.get_cluster(n)
            if (a is None) != (b is None) or (a is not None and a.storage.to_dict() != b.storage.to_dict()):
                out["violations"].append(("priority|rebuild|resolution-differs%s" % ("|name-field-differs-from-key" if alias else ""), "rebuilt environment resolves %s differently" % n, {"priority": [repos_spec, later, alias]}))
                break
        out["outcomes"].append("prio|%s|%s" % (repos_spec, later))
    finally:
        rm(top)
    return out


def run(ctx):
    ctx.rule = ("options: storage type x metadata_path x memory_cache_mb x readonly {absent, false, true} x runner {absent, local, null} "
                "(%d combinations) x supplied as inline dict / JSON files / YAML with a template parameter, each compared by behavioural "
                "probes with the constructor-built twin, then dumped and rebuilt; 9 explicit-argument overrides (each also dumped and rebuilt); repository lists (clusters registered under their own name, or under a key that differs from their name field) of "
                "length 1..3 over cluster-name subsets in every order, also with a prepend / append after a first resolution. "
                "distinct = (options, supply form) / overrides / repository lists." % len(options()))
    tasks = [(o, how) for o in options() for how in ("dict", "dict-reused", "json", "json-nested", "yaml")]
    a = option_case(tasks[5])
    b = option_case(tasks[5])
    ctx.selfcheck("one case gives identical observations twice", a["violations"] == b["violations"])
    ctx.merge(pmap(option_case, tasks, chunksize=4))
    ctx.merge(pmap(override_case, ["path", "metadata_path", "metadata_path-reset", "memory_cache_mb", "memory_cache_mb-zero", "readonly-true", "readonly-false", "storage-object", "runner-object"], chunksize=1))
    subsets = [(), ("ca",), ("cb",), ("ca", "cb")]
    ptasks = []
    for n in (1, 2, 3):
        for spec in itertools.product(subsets, repeat=n):
            ptasks.append((spec, None))
            ptasks.append((spec, None, "suffix"))
            ptasks.append((spec, None, "swap"))
            if n >= 2:
                ptasks.append((spec, ("promote", ())))
            if n <= 2:
                for op in ("prepend", "append"):
                    for names in subsets[1:]:
                        ptasks.append((spec, (op, names)))
    ctx.merge(pmap(priority_case, ptasks, chunksize=8))
    ctx.merge([repo_argument_case(None)])
    gt = [(what, regs, how) for what in ("runner", "storage") for regs in (1, 2, 3) for how in ("config", "create", "dump")]
    ctx.merge(pmap(register_case, gt, chunksize=2))
    ctx.rule += " Plus: a storage / runner type name registered 1..3 times (newer classes), environments built from a configuration naming it, through create(), and from the dump of an earlier environment."
    ctx.extra["option_cases"] = len(tasks)
    ctx.extra["priority_cases"] = len(ptasks)
    ctx.sample({"option": [tasks[40][0], tasks[40][1]]})
    ctx.sample({"priority": [list(ptasks[-1][0]), ptasks[-1][1]]})


def replay(ctx, art):
    a = art["artefact"]
    if "option" in a:
        r = option_case((a["option"][0], a["option"][1]))
    elif "repo_argument" in a:
        r = repo_argument_case(None)
    elif "register" in a:
        r = register_case(tuple(a["register"]))
    elif "override" in a:
        r = override_case(a["override"])
    else:
        spec = tuple(tuple(x) for x in a["priority"][0])
        later = a["priority"][1]
        r = priority_case((spec, (later[0], tuple(later[1])) if later else None) + ((a["priority"][2],) if len(a["priority"]) > 2 else ()))
    for v in r["violations"]:
        print(v[0], "\n", v[1])
    print("REPLAY property=C18 result=%s" % bool(r["violations"]))
    return 1 if r["violations"] else 0

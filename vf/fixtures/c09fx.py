"""Functions for the concurrency scenarios (C09, C10 concurrent part). Bodies announce themselves.

g / h carry explicit versions; the others are automatically versioned (so the run-time dependency
check applies to them) and form a small call tree: top1 -> mid -> leaf, top2 -> mid -> leaf;
solo_a and solo_b call nothing and are in nobody's dependency closure.
"""
import sys

import twosigma.memento as m
from twosigma.memento.exception import NonMemoizedException


@m.memento_function(cluster="vfc", version="1")
def g(x):
    sys.audit("vf.body", "g", x)
    return "val-%s" % x


@m.memento_function(cluster="vfc", version="1")
def h(x):
    sys.audit("vf.body", "h", x)
    return "other-%s" % x


@m.memento_function(cluster="vfc", version="1")
def gnone(x):
    sys.audit("vf.body", "gnone", x)
    return None


@m.memento_function(cluster="vfc")
def solo_a(x):
    sys.audit("vf.body", "solo_a", x)
    return "a-%s" % x


@m.memento_function(cluster="vfc")
def solo_b(x):
    sys.audit("vf.body", "solo_b", x)
    return "b-%s" % x


@m.memento_function(cluster="vfc")
def leaf(x):
    sys.audit("vf.body", "leaf", x)
    return "leaf-%s" % x


@m.memento_function(cluster="vfc")
def mid(x):
    sys.audit("vf.body", "mid", x)
    return "mid(%s)" % leaf(x)


@m.memento_function(cluster="vfc")
def top1(x):
    sys.audit("vf.body", "top1", x)
    return "top1(%s)" % mid(x)


@m.memento_function(cluster="vfc")
def top2(x):
    sys.audit("vf.body", "top2", x)
    return "top2(%s)" % mid(x)


@m.memento_function(cluster="vfc")
def hid_a(x):
    """Automatic version; reaches solo_a by a run-time lookup the dependency analysis cannot see: must be refused."""
    sys.audit("vf.body", "hid_a", x)
    return "hid(%s)" % globals()["solo" + "_a"](x)


@m.memento_function(cluster="vfc", version="1")
def ex(x):
    """Explicit version (exempt from the run-time dependency check) calling solo_b."""
    sys.audit("vf.body", "ex", x)
    return "ex(%s)" % solo_b(x)


@m.memento_function(cluster="vfc", version="1")
def pa(x):
    from twosigma.memento.partition import InMemoryPartition

    sys.audit("vf.body", "pa", x)
    return InMemoryPartition({"a": "pa-%s" % x, "s": "shared"})


@m.memento_function(cluster="vfc", version="1")
def pb(x):
    from twosigma.memento.partition import InMemoryPartition

    sys.audit("vf.body", "pb", x)
    return InMemoryPartition({"b": "pb-%s" % x, "c": [1, 2], "s": "shared"})


@m.memento_function(cluster="vfc", version="1")
def ping(x):
    """ping(1) -> pong(0), pong(1) -> ping(0): two call trees that cross."""
    sys.audit("vf.body", "ping", x)
    return "ping(%s)" % (pong(x - 1) if x > 0 else "")


@m.memento_function(cluster="vfc", version="1")
def pong(x):
    sys.audit("vf.body", "pong", x)
    return "pong(%s)" % (ping(x - 1) if x > 0 else "")


@m.memento_function(cluster="vfc", version="1")
def same(x):
    """Different calls, byte-identical results (one content-addressed object, one link)."""
    sys.audit("vf.body", "same", x)
    return "identical-result"


@m.memento_function(cluster="vfc", version="1")
def ko(x):
    """Different calls writing different results under ONE key override."""
    from twosigma.memento.result import KeyOverrideResult

    sys.audit("vf.body", "ko", x)
    return KeyOverrideResult("ko-result-%s" % x, "ko/shared#key")


class Transient(NonMemoizedException):
    pass


from . import c09aux as _aux

_runs = _aux.runs
_inside = _aux.inside


@m.memento_function(cluster="vfc", version="1")
def flaky(x):
    """First execution fails with a not-to-be-memoized exception, later ones succeed. Two executions of the body for
    the same argument must never overlap (the per-call mutex serialises them). Three traced lines: a thread can be
    preempted between entering and leaving the body."""
    _aux.enter(x)
    try:
        return _aux.attempt(x, Transient)
    finally:
        _inside.discard(x)


# the reference: what an un-memoized program returns, and the call tree below each call
CALLS = {"ping": ("pong",), "pong": ("ping",), "same": (), "ko": (), "hid_a": (), "ex": ("solo_b",), "pa": (), "pb": (), "flaky": (), "gnone": (), "g": (), "h": (), "solo_a": (), "solo_b": (), "leaf": (), "mid": ("leaf",), "top1": ("mid",), "top2": ("mid",)}
_FMT = {"ex": "ex(%s)", "flaky": "flaky-%s", "g": "val-%s", "h": "other-%s", "solo_a": "a-%s", "solo_b": "b-%s", "leaf": "leaf-%s", "mid": "mid(%s)",
        "top1": "top1(%s)", "top2": "top2(%s)"}


CTX = {"k": 1}  # the context arguments a call spelled "name@ctx" is made under


def base(fn):
    return fn.split("!")[0].split("@")[0].split("%")[0]


def fobj(fn):
    """The callable a call specification denotes: "name", "name@ctx" (with context arguments), "name!ignore"."""
    f = globals()[base(fn)]
    if "@ctx" in fn:
        f = f.with_context_args(CTX)
    if fn.endswith("!ignore"):
        f = f.ignore_result()
    return f


def invoke(fn, x):
    """One call. "name%kw": the same call spelled through a keyword partial application, f.partial(x=x)()."""
    if fn.endswith("%kw"):
        return fobj(fn[:-3]).partial(x=x)()
    return fobj(fn)(x)


def expected(fn, x):
    """Value of the plain program; ("raises", class name) where the library must refuse; partitions as dicts."""
    if fn.endswith("!ignore"):
        return None
    fn = base(fn)
    if fn == "gnone":
        return None
    if fn == "hid_a":
        return ("raises", "UndeclaredDependencyError")
    if fn in ("ping", "pong"):
        other = "pong" if fn == "ping" else "ping"
        return "%s(%s)" % (fn, expected(other, x - 1) if x > 0 else "")
    if fn == "same":
        return "identical-result"
    if fn == "ko":
        return "ko-result-%s" % x
    if fn == "pa":
        return {"a": "pa-%s" % x, "s": "shared"}
    if fn == "pb":
        return {"b": "pb-%s" % x, "c": [1, 2], "s": "shared"}
    inner = CALLS[fn]
    return _FMT[fn] % (expected(inner[0], x) if inner else x)


def closure(fn, x):
    """All distinct calls made by fn(x), itself included, in call order. Nested calls inherit the context arguments,
    so they keep the "@ctx" mark: the same function and argument under other context arguments is another call."""
    mark = "@ctx" if "@ctx" in fn else ""
    fn = base(fn)
    if fn == "hid_a":
        return [(fn + mark, x)]  # the hidden call is refused before anything runs beneath it
    if fn in ("ping", "pong"):
        return [(fn + mark, x)] + (closure(("pong" if fn == "ping" else "ping") + mark, x - 1) if x > 0 else [])
    out = [(fn + mark, x)]
    for c in CALLS[fn]:
        out += closure(c + mark, x)
    return out

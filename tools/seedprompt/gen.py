import json, glob, os, sys
tpl=open('template.txt').read()
rnd = sys.argv[1]
pids = sys.argv[2:]
prev = {}
for d in sorted(glob.glob('/verif/seeded/*')):
    m=json.load(open(d+'/meta.json'))
    note = m.get('needs_to_manifest','').strip().splitlines()
    first = next((l for l in note if l.strip() and not l.startswith('#')), note[0] if note else '')
    title = note[0].lstrip('# ').strip() if note and note[0].startswith('#') else ''
    # prefer a descriptive line
    cand = [l.strip(" -*") for l in note if l.strip()][:4]
    desc = title if len(title) > 25 else (title + " / " if title else "") + (cand[1] if len(cand) > 1 else first)
    prev.setdefault(m['breaks_property'], []).append(desc[:200])
for pid in pids:
    extra = "Changes ALREADY tried for this property - produce DIFFERENT ones (different code site AND different triggering scenario):\n" + "".join("  - %s\n" % t for t in prev.get(pid, [])) + "\n"
    t = tpl.replace("@TAG@", pid+rnd).replace("@PROPERTY@", open(pid+".txt").read()).replace("@EXTRA@", extra)
    open("prompt_%s%s.txt" % (pid, rnd), "w").write(t)
print("ok")

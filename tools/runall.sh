#!/bin/bash
# tools/runall.sh <quick|thorough> [ids...]: run checks one after the other, print a summary line each
TIER="${1:-quick}"; shift
IDS="${@:-C01 C02 C03 C04 C05 C06 C07 C08 C09 C10 C11 C12 C13 C14 C15 C16 C17 C18 C19}"
cd "$(dirname "${BASH_SOURCE[0]}")/.."
LOGD="$(mktemp -d /tmp/runall_XXXXXX)"
for c in $IDS; do
  s=$(date +%s)
  ./vfcheck $c $TIER > $LOGD/$c.log 2>&1; rc=$?
  e=$(date +%s)
  echo "$c tier=$TIER rc=$rc wall=$((e-s))s violations=$(grep -c '^VIOLATION' $LOGD/$c.log) known=$(grep -c '^KNOWN-FINDING' $LOGD/$c.log)"
  grep -E '^(VIOLATION|HARNESS-ERROR)' -A3 $LOGD/$c.log | head -20
done

"""E3 - controlled thread scheduler (stateless exploration, iterative context bounding).

Real threads run real library code under ``sys.settrace``; exactly one thread holds the baton.
Scheduling points are every ``line`` event in the traced library files and every lock
acquisition of a library lock.  A choice vector decides, at each point with more than one
enabled thread, who runs next: choice 0 = keep running the current thread if it is enabled,
otherwise the lowest id.  Switching away from an enabled thread costs one preemption.

``install_lock_factories()`` must run BEFORE twosigma.memento is imported (third-party packages
first): ``threading.Lock``/``RLock`` then return scheduler-aware locks when created by library
code, so every lock the library has - or a future change adds - is under the scheduler.
"""
import _thread
import sys
import threading

_real_Lock = threading.Lock
_real_RLock = threading.RLock
_alloc = _thread.allocate_lock
_get_ident = _thread.get_ident

CUR = None  # the active Scheduler, if any
LIB_MARK = "/twosigma/memento/"


class SchedAbort(BaseException):
    pass


class ReplayDivergence(Exception):
    pass


class SLock:
    """Scheduler-aware lock (re-entrant or not). Without an active scheduler it degenerates to
    a single-threaded lock."""

    def __init__(self, reentrant):
        self.reentrant = reentrant
        self.owner = None
        self.count = 0

    def acquire(self, blocking=True, timeout=-1):
        s = CUR
        me = s.me() if s is not None else None
        if me is None:
            self.owner = "seq"
            self.count += 1
            return True
        s.point(me, "acquire")
        while self.owner is not None and not (self.reentrant and self.owner == me):
            if not blocking:
                return False
            if self.owner == me:
                # non re-entrant lock taken twice by the same thread: self-deadlock
                pass
            s.block(me, self)
        self.owner = me
        self.count += 1
        return True

    def release(self):
        self.count -= 1
        if self.count <= 0:
            self.count = 0
            self.owner = None
            s = CUR
            if s is not None:
                s.wake(self)

    def locked(self):
        return self.owner is not None

    def __enter__(self):
        self.acquire()
        return self

    def __exit__(self, *exc):
        self.release()
        return False

    # RLock private API used by threading.Condition (not expected from library code)
    def _is_owned(self):
        s = CUR
        return self.owner == (s.me() if s else "seq")


def _factory(reentrant, real):
    def make(*a, **kw):
        f = sys._getframe(1)
        if LIB_MARK in f.f_code.co_filename:
            return SLock(reentrant)
        return real(*a, **kw)

    return make


_installed = False


def install_lock_factories():
    global _installed
    if _installed:
        return
    if "twosigma.memento" in sys.modules:
        raise RuntimeError("lock factories must be installed before twosigma.memento is imported")
    threading.Lock = _factory(False, _real_Lock)
    threading.RLock = _factory(True, _real_RLock)
    _installed = True


class Scheduler:
    def __init__(self, n, prefix=(), line_files=(), max_points=40000, opcode_codes=None, call_files=(), skip_names=()):
        self.n = n
        self.prefix = list(prefix)
        self.k = 0
        self.status = ["ready"] * n
        self.waitlock = [None] * n
        self.gate = [_alloc() for _ in range(n)]
        for g in self.gate:
            g.acquire()
        self.cur = -1
        self.trace = []  # (n_enabled, chosen, current_thread_was_enabled)
        self.fin = _alloc()
        self.fin.acquire()
        self.fin_released = False
        self.deadlock = False
        self.livelock = False
        self.abort = False
        self.npoints = 0
        self.max_points = max_points
        self.exc = [None] * n
        self.ret = [None] * n
        self.ids = {}
        self.line_files = frozenset(line_files)
        self.call_files = frozenset(call_files)
        self.skip_names = frozenset(skip_names)
        self.opcode_codes = opcode_codes or ()
        self.divergence = None

    # -- identity ------------------------------------------------------------------------------
    def me(self):
        return self.ids.get(_get_ident())

    # -- choosing ------------------------------------------------------------------------------
    def _enabled(self):
        en = [i for i in range(self.n) if self.status[i] == "ready"]
        if self.cur in en:
            en.remove(self.cur)
            en.insert(0, self.cur)
        return en

    def _choose(self, en, cur_enabled):
        if len(en) == 1:
            return en[0]
        if self.k < len(self.prefix):
            c = self.prefix[self.k]
            if c >= len(en):
                self.divergence = "choice %d out of range (%d enabled) at point %d" % (c, len(en), self.k)
                self.abort = True
                c = 0
        else:
            c = 0
        self.k += 1
        self.trace.append((len(en), c, cur_enabled))
        return en[c]

    def _finish(self):
        if not self.fin_released:
            self.fin_released = True
            self.fin.release()

    def _abort_all(self):
        self.abort = True
        for i in range(self.n):
            if self.status[i] != "done":
                try:
                    self.gate[i].release()
                except RuntimeError:
                    pass
        self._finish()

    # -- scheduling points -----------------------------------------------------------------------
    def point(self, me, why="line"):
        if self.abort:
            raise SchedAbort()
        self.npoints += 1
        if self.npoints > self.max_points:
            self.livelock = True
            self._abort_all()
            raise SchedAbort()
        en = self._enabled()
        nxt = self._choose(en, True)
        if self.abort:
            self._abort_all()
            raise SchedAbort()
        if nxt != me:
            self.cur = nxt
            self.gate[nxt].release()
            self.gate[me].acquire()
            if self.abort:
                raise SchedAbort()

    def block(self, me, lock):
        self.status[me] = "blocked"
        self.waitlock[me] = lock
        self._leave(me)
        self.gate[me].acquire()
        if self.abort:
            raise SchedAbort()

    def wake(self, lock):
        for i in range(self.n):
            if self.status[i] == "blocked" and self.waitlock[i] is lock:
                self.status[i] = "ready"
                self.waitlock[i] = None

    def _leave(self, me):
        """The current thread cannot continue (blocked or done): hand the baton on."""
        en = self._enabled()
        if not en:
            if all(s == "done" for s in self.status):
                self._finish()
                return
            self.deadlock = True
            self._abort_all()
            return
        nxt = self._choose(en, False)
        if self.abort:
            self._abort_all()
            return
        self.cur = nxt
        self.gate[nxt].release()

    # -- tracing -----------------------------------------------------------------------------------
    def _global_trace(self, frame, event, arg):
        co = frame.f_code
        if co.co_filename in self.line_files:
            if co.co_name in self.skip_names:
                return None
            if co in self.opcode_codes:
                frame.f_trace_opcodes = True
            return self._local_trace
        if co.co_filename in self.call_files and co.co_name not in self.skip_names:
            self.point(self.ids[_get_ident()], "call")
        return None

    def _local_trace(self, frame, event, arg):
        if event == "line" or event == "opcode":
            self.point(self.ids[_get_ident()])
        return self._local_trace

    def _thread_main(self, me, body):
        self.ids[_get_ident()] = me
        self.gate[me].acquire()
        if not self.abort:
            sys.settrace(self._global_trace)
            try:
                self.ret[me] = body()
            except SchedAbort:
                pass
            except BaseException as e:  # noqa: escaped to the caller of the library
                self.exc[me] = e
            finally:
                sys.settrace(None)
        self.status[me] = "done"
        if self.abort:
            self._finish()
        else:
            self._leave(me)

    def run(self, bodies):
        global CUR
        assert len(bodies) == self.n
        CUR = self
        threads = [threading.Thread(target=self._thread_main, args=(i, b), daemon=True) for i, b in enumerate(bodies)]
        try:
            for t in threads:
                t.start()
            en = self._enabled()
            nxt = self._choose(en, False)
            self.cur = nxt
            self.gate[nxt].release()
            if not self.fin.acquire(timeout=120):
                self.livelock = True
                self._abort_all()
            for t in threads:
                t.join(timeout=10)
        finally:
            CUR = None
        return self


def preemptions_before(trace, i):
    return sum(1 for (n, c, cur) in trace[:i] if c != 0 and cur)


def children(trace, base_len, bound):
    """Prefixes to explore next (CHESS recursion): deviate at every point at or after base_len."""
    out = []
    choices = [c for (_, c, _) in trace]
    for i in range(base_len, len(trace)):
        n, c, cur_enabled = trace[i]
        cost = preemptions_before(trace, i) + (1 if cur_enabled else 0)
        if cost > bound:
            continue
        for alt in range(1, n):
            out.append(tuple(choices[:i]) + (alt,))
    return out

"""Audit-hook monitor: observes file-system activity under chosen roots and ``vf.body`` events.

Audit hooks cannot be removed, so one hook is installed once and consults module state.
"""
import os
import sys

_state = {"on": False, "roots": (), "events": [], "bodies": [], "body_on": True}
_installed = False

_MUTATORS = {"os.mkdir", "os.remove", "os.rename", "os.rmdir", "shutil.rmtree", "os.truncate", "os.link",
             "os.symlink", "os.chmod", "os.chown", "os.utime", "shutil.move", "shutil.copyfile", "os.replace",
             "os.unlink"}


def _under(p):
    if isinstance(p, bytes):
        p = p.decode("utf-8", "replace")
    elif isinstance(p, os.PathLike):
        p = os.fspath(p)
    if not isinstance(p, str):
        return None
    for r in _state["roots"]:
        if p == r or p.startswith(r + os.sep):
            return p
    return None


def _hook(event, args):
    if event == "vf.body":
        if _state["body_on"]:
            _state["bodies"].append(args)
        return
    if not _state["on"]:
        return
    if event == "open":
        p = _under(args[0])
        if p is not None:
            mode, flags = args[1], args[2]
            writing = bool(flags & (os.O_WRONLY | os.O_RDWR | os.O_CREAT | os.O_TRUNC | os.O_APPEND)) if isinstance(flags, int) else True
            _state["events"].append(("open-w" if writing else "open-r", p))
    elif event in _MUTATORS:
        for a in args[:2]:
            p = _under(a)
            if p is not None:
                _state["events"].append((event, p))
                break
    elif event in ("os.listdir", "os.scandir"):
        p = _under(args[0])
        if p is not None:
            _state["events"].append(("list", p))


def install():
    global _installed
    if not _installed:
        sys.addaudithook(_hook)
        _installed = True


class watch:
    """with watch(roots) as w: ...; w.events / w.mutations / w.reads afterwards."""

    def __init__(self, *roots):
        self.roots = tuple(os.path.realpath(r) for r in roots if r)

    def __enter__(self):
        install()
        self._saved = (_state["on"], _state["roots"], _state["events"])
        _state["roots"] = self.roots
        _state["events"] = []
        _state["on"] = True
        return self

    def __exit__(self, *exc):
        self.events = _state["events"]
        _state["on"], _state["roots"], _state["events"] = self._saved
        self.mutations = [e for e in self.events if e[0] not in ("open-r", "list")]
        self.reads = [e for e in self.events if e[0] in ("open-r", "list")]
        return False


def bodies_reset():
    install()
    _state["bodies"] = []


def bodies():
    return list(_state["bodies"])

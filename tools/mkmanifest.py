#!/usr/bin/env python3
"""Regenerate MANIFEST.json from the table below (keeps it schema-valid)."""
import json
import os

HERE = os.path.dirname(os.path.dirname(os.path.abspath(__file__)))

# id -> (category, technique, text, note, design_ref)
CHECKS = {
    "C06": ("model_checking",
            "explicit-state BFS of real MemoryCache op histories to state closure vs byte-LRU reference model",
            "Every reachable canonical state of a real MemoryCache under the op alphabet (4 size classes incl. exact-fit and oversize, weak-referenceable values, memento-only puts, reads, forgets) for two budgets is visited and the accounting/LRU/staleness invariants are evaluated on each transition; plus all backend-level histories to a depth with an open() audit proving predicted hits never touch the store; plus every schedule (1 preemption; thorough 2) of two threads hitting / filling the cache of a real backend.",
            "Sizes are those sys.getsizeof reports; pandas values (randomised size estimator) are outside the alphabet; closure is for 3 (quick) / 4 (thorough) keys.",
            "DESIGN.md §3 C06"),
}

CHECKS["C05"] = ("model_checking",
    "explicit-state BFS over storage-operation histories on the real backends vs a plain-dictionary reference, whole-state probe per canonical state",
    "All operation histories up to the stated depth over an alphabet with prefix-related names/versions, small/large/oversize/None/exception values, weak-referenceable results the caller keeps holding (fitting and oversize), key overrides and metadata are executed on memory, filesystem and filesystem+cache backends; batch look-ups answer per position; every answer is compared with a dictionary, and every distinct canonical state (file tree + cache + model) is additionally compared as a whole through a fresh cache-less view, including that nothing superseded or forgotten is cache-resident.",
    "Depth-bounded (quick 3-5, thorough 4-6 operations); values are tagged strings so staleness is observable; metadata stored with a superseded data object is treated as undefined.",
    "DESIGN.md §3 C05")
CHECKS["C07"] = ("model_checking",
    "explicit-state BFS over storage histories with whole-store integrity scan (hash, dedup, link, immutability) after every transition",
    "The C05 exploration on the filesystem backend with byte-identical results from different calls/functions, partitions, exceptions key-override writes of two different calls to one shared key containing '#' and '/' (also by writers that seed the process-wide PRNG before writing), write faults (ENOSPC in the data object, or in the memento after the data object was stored) with and without memory cache; after every transition every stored object is re-hashed, links are followed, duplicates counted, and every live memento's bytes are compared with the bytes recorded when it was created. Concurrent part: two threads writing under one key override / writing byte-identical results, every schedule up to 1 preemption (thorough 2), then everything read back through a fresh backend.",
    "Depth-bounded (quick 2-3, thorough 3-5); crash/fault interleavings of a write are C08's subject, not this check's.",
    "DESIGN.md §3 C07")

CHECKS["C19"] = ("model_checking",
    "explicit-state BFS over operation histories on a pre-populated store opened read-only (6 ways) with file-system audit + tree digest after every transition; exhaustive sequences for null storage / null runner",
    "Every history to the stated depth of storage-level and function-level operations against a populated store reopened read-only by argument, storage config, cluster config, with/without cache, on the memory backend, on a store whose data object for one call was lost, or whose memento link for one call was left empty or whose memento document was cut short, before it was opened read-only, with the flag given by argument over a config saying readonly false and the environment then dumped and rebuilt, and from configuration objects that had been used before: after each transition no mutating audit event under the roots, the tree digest equals the initial one, reads answer as the model, memoize is skipped, forget/metadata writes are rejected. Null storage and null runner: every operation sequence to depth 3 with body-execution counts, incl. calls of the refused function from inside a running function of another cluster or of a force_local parent.",
    "Audit coverage is what CPython's audit events report (open, mkdir, remove, rename, rmdir, rmtree, truncate, link, chmod, utime); the digest catches anything else that changes file contents or names.",
    "DESIGN.md §3 C19")

CHECKS["C08"] = ("fault_enumeration",
    "exhaustive fault enumeration: every mutating file-system op and every read-open of each scenario x every fault kind (real process death / injected I/O error), recovery in a fresh process; thorough: every second fault during recovery",
    "For 12 memoization scenarios (a call with further calls prevented followed by ordinary calls, string, dedup across functions, key override, partition, exception, forget+recall, custom metadata, two arguments, None + shared partition blob, result larger than the memory cache, partition merged over the partition of a nested call) with and without memory cache, the fault-free op log (every mutating op and every file opened for reading while memoizing) is recorded and every (op, fault kind) pair is executed: crash before, crash leaving an empty file, crash leaving half the bytes or all but the last 1 / 8 bytes, error on open (write or read)/mkdir/unlink, ENOSPC mid-write. Callers of a process that survives a reported error must not see it, and that process keeps calling (three more calls of everything: correct values, no exception, at most one recomputation); after restart in a fresh process every call must return the correct value, raise nothing and stop recomputing after one successful write.",
    "Faults are process death and reported errors at the calls the library issues (audit cross-check makes un-intercepted mutations a harness error); no reordering of completed writes by the OS.",
    "DESIGN.md §3 C08")

CHECKS["C09"] = ("model_checking",
    "stateless model checking of real threads under a controlled scheduler (sys.settrace baton + scheduler-aware library locks), iterative preemption bounding",
    "Every schedule with at most 1 preemption (quick; 2 thorough) of 2-3 threads calling memoized functions is executed on the real runner/storage/cache code for {cold, warm store, warm cache} x {same key, different keys} x 4 backends, plus automatically versioned functions (two unrelated functions; two callers whose nested call trees share a sub-tree, cold and warm), a batch against a single call of one of its elements, results that are None and callers that ignore the result, call trees that cross (ping(1)->pong(0) against pong(1)->ping(0)), different calls with byte-identical results or one shared key override (afterwards read back through a fresh backend), and three callers of a call whose first execution ends with a not-to-be-memoized exception (bound 2 at call granularity: one caller sees the failure, the body runs twice, never twice at once; fixture bodies are traced), with scheduling points at every line of the runner, call-stack, storage and cache code and at every library lock acquisition; additionally every schedule with at most 2 (thorough 3) preemptions at runner granularity (line points in the runner, call points in storage) for the cold-store scenarios. Per execution: values, no escaped exception, exactly one body run per un-memoized call, no deadlock/livelock, cache accounting consistent and final cache equal to a sequential outcome.",
    "Switches happen only at line boundaries of the traced files and at lock acquisitions (thorough adds opcode-level points in MemoryCache); pure string/path helpers are atomic; no Python race detector exists in the image; schedules beyond the preemption bound are not explored.",
    "DESIGN.md §3 C09")

CHECKS["C01"] = ("model_checking",
    "exhaustive enumeration of edit histories over generated programs, each edition executed on the real library in fresh or long-lived processes, differential oracle = un-decorated rendering of the current edition",
    "30 program skeletons (root -> dependency chains over memento / explicit-version / plain functions through bare, module.attr, alias, decorator-wrapper and nested-call references, references inside comprehensions / lambdas / functools.partial / conditionals / default values / nested defs, reference cycles, attributes that do not exist yet, a helper in the package __init__.py; globals of 7 types, class constants, dotted-head bindings, late definitions, hidden dynamic edges, memento callees in a second package, several variables holding equal values) x every edit site (incl. copying one variable's value to another) x every edit sequence up to length 1 (quick) / 2 (thorough) x delivery cross-process / in-process re-exec+rebind / in-process reload / in-place mutation of tracked lists and dicts. After every edit every auto-versioned function is called with an explicit argument and with its defaults (hidden-edge programs also through force_local / partial / with_context_args clones); the result must equal the un-memoized run of the current edition or be UndeclaredDependencyError.",
    "Programs come from a fixed skeleton family, not arbitrary Python; explicit-version functions are edited only together with a version bump (of every explicit function reaching the edit); unsupported variable types and plain helpers in other packages are outside the statement.",
    "DESIGN.md §3 C01")

CHECKS["C03"] = ("model_checking",
    "exhaustive enumeration of (program x hash seed x definition-order permutation x import order x first-query-order permutation) configurations, each executed in a real interpreter started with that PYTHONHASHSEED",
    "For the C01 program skeletons plus constant-heavy, same-leaf-in-two-namespaces, in-place-fill (two fills per dict), set literals of strings / tuples / bytes, helpers and variables named like builtins, factory-made helpers sharing one code object, default values that cannot be encoded (object() marker, instance without __repr__), one global name used by two modules for different things, and cross-package (memento and plain functions of a second package referenced from the root and through a helper) programs: one fresh interpreter per seed (quick 9, thorough 33 seeds) imports every program under every permutation of the definition order of its functions and module-level statements (up to 5), both import orders, and queries versions in every order; each function must have exactly one version over the whole matrix. Then a second process with a different seed and reversed definition order re-runs all roots on the store the first filled: zero function bodies, equal values.",
    "Hash seeds are a finite stated subset of 2^32 (the run fails as vacuous unless at least two distinct set iteration orders were exercised); programs come from the skeleton family.",
    "DESIGN.md §3 C03")

CHECKS["C14"] = ("model_checking",
    "exhaustive enumeration of reference digraphs x kind assignments x reference forms, each program imported in a fresh process; oracle = graph reachability; plus stateless exploration of all schedules (preemption-bounded) of two threads under the controlled scheduler",
    "Every digraph without self loops over N<=3 nodes (thorough: N=4 up to relabelling) with every assignment of kinds {memento auto, memento explicit, plain} and reference forms bare / module.attr / alias / decorator wrapper / inside a comprehension / inside a lambda / through functools.partial / module.attr assigned to a same-named local / inside the arguments of a call whose result is dereferenced (all form assignments for N=2, covering rotations above) is rendered as a real module (graphs with 2-3 nodes additionally with the nodes spread over a module, the package __init__.py and a sibling module); for every memento node the reported transitive and direct dependencies and the dependency-graph links are compared with reachability, and every hidden dynamic call and every argument-passed call u=>v, directly and one real static call deeper (u->w=>v, including callees already on the call stack), through plain invocation and every modifier clone, must be refused exactly when v is outside the closure of the calling memento function. A name re-pointed between two memento functions in the running process (4 kind pairs): closure and run-time check before / after / back; a function on a reference cycle re-defined in the running process so that it names another function. Concurrent part: every schedule (1 preemption; thorough 2) of a thread inside an exempt or nested caller against a thread making a hidden or an ordinary top-level call.",
    "A function is never its own dependency (self entries and self links excluded); explicit-version callers are exempt from enforcement as documented; graphs beyond 4 nodes are not enumerated.",
    "DESIGN.md §3 C14")

CHECKS["C13"] = ("model_checking",
    "explicit-state BFS over in-process event histories on a live module; oracle = versions computed by a fresh process for the program text the history denotes",
    "Every sequence up to depth 3 (quick) / 4 (thorough) over 21 events - redefine f / g / h, redefine h with only a positional or keyword-only default changed, redefine a function that refers to itself (r) or lies on a reference cycle (p <-> q), define a helper that takes the name of a builtin the function was using, re-bind the module name of a declared dependency, rebind G and variables reachable only through a helper or only through a memento dependency, mutate a list in place, define a late symbol as helper or as variable, define a missing attribute, turn g into a plain function and back, rebind the head of a dotted name, create a modifier clone / an unregistered wrapper and query it, query f / g - is replayed in a fresh process on a live generated module; after every transition every version asked (f, g, clones and wrappers of the current code) (f, g, r, p, q) must equal what a fresh interpreter computes for the resulting program text. One history is kept per canonical (program text, version-cache entries, generation currency, hash-rule digests) state.",
    "Re-definitions are compiled with the module's import header (CPython emits different byte code for sys.audit depending on whether import sys is in the same compilation unit); clones/wrappers holding superseded code are not queried; locked clusters are exempt by the statement.",
    "DESIGN.md §3 C13")

CHECKS["C04"] = ("model_checking",
    "bounded-exhaustive enumeration of argument values x signatures x all presentations of a binding, executed on the real reference/hash code and a filesystem store; oracle = independent implementation of the documented hash + iff-relation over all value pairs",
    "Every value of the argument alphabet (27 atoms incl. look-alikes across bool/int/float/str, -0.0, NaN, inf, non-ASCII, dates, naive/aware datetimes; lists and string-keyed dicts incl. both insertion orders and keys that need JSON escaping; pandas.Timestamp / OrderedDict; function references with partial arguments) is bound on 1-parameter functions and in combinations on 2/3-parameter, defaulted, keyword-only and **kwargs signatures, and presented in every well-defined way (positional/keyword splits, keyword orders, one or two partial applications). All presentations must give one key equal to the documented SHA-256 of the canonical JSON, one body run, and the body must receive exactly the normalized values; all ordered value pairs must share a key iff their canonical encodings are equal; context-argument dictionaries likewise; a three-level call chain and the batch form are run under each context (every level computed again, nested keys equal the documented hash with that context); every ordered pair of five signatures is used as definition and re-definition of one function in a running process (module rewritten + reload) with all presentations checked after each; a function argument re-versioned in the running process must change the key.",
    "Positional arguments of a partial application placed after a keyword partial of an earlier parameter are not a well-defined presentation (the library lets the positional overwrite the keyword) and are not generated; var-positional / positional-only signatures are excluded by the statement.",
    "DESIGN.md §3 C04")

CHECKS["C11"] = ("model_checking",
    "bounded-exhaustive enumeration of mementos through the real codec; oracle = field-wise round trip + recomputed argument hash + strict JSON parser + pinned wire structure",
    "Every value of the argument alphabet (depth 1 quick / 2 thorough) in positional, keyword, context and partial-argument position, function references with partials, invocation lists (incl. a repeated invocation and invocations of a version that no longer exists) and resource lists, content keys (none, plain, containing '#', empty version), result types, runtimes, times (UTC, offset, naive), runner dicts and correlation ids are encoded with MementoCodec, dumped, parsed with a parser that rejects NaN/Infinity tokens, validated against the exact field names and {type, value} argument encoding, decoded and compared field by field (datetimes by instant and offset), and the argument hash is recomputed from the decoded arguments.",
    "Known finding (recorded, not repaired): non-finite floats are emitted as bare NaN/Infinity tokens. Versions containing '#' are outside the alphabet (versions are uuids or empty).",
    "DESIGN.md §3 C11")

CHECKS["C12"] = ("model_checking",
    "exhaustive enumeration of name/version strings (pure parse round trip and real store round trip) and of evolution histories of a caller/callee pair, cross-process and in-process",
    "A: every version string over {a,1,.,_,-,+,=,:,#,@} up to length 3 (quick) / 4 (thorough) x 4 cluster names (incl. one with ':') x 2 modules x 2 function names must parse back into exactly its parts. B: a sub-alphabet of versions (all single characters, all two-character strings starting with ':' '#' '1', more in thorough) is used as a real explicit version in the default and in a named cluster (package and cluster names starting with 'm') on memory and filesystem backends: body once, hit, memento(), list_mementos(), list_memoized_functions(). C: every step sequence of length <= 2 over {edit, bump, remove, rename, recluster, make plain, restore} of the callee (auto, explicit, explicit with the empty version or with a version containing '::' ':' '#'; called directly, through a positional partial, or handed to a middle function as an argument; also living in a second module that later cannot be imported any more) with the caller's version pinned, in the default cluster, a named cluster and a named cluster whose name is a prefix of the module name, with the callee called or handed to a middle function as an argument, delivered cross-process and in one process: the caller is served, no metadata read raises, references to vanished versions are external and their stubs (and force_local clones of them) still list the stored entries, the names and arguments in the caller's stored record do not change, and every function listed before a step is still listed under the same name with at least as many mementos.",
    "Cluster names do not contain '::' or '#'; module/function names are dotted identifiers; a callee that only moved to another cluster is not counted as vanished (and listing monotonicity is not demanded after such a move).",
    "DESIGN.md §3 C12")

CHECKS["C15"] = ("model_checking",
    "bounded-exhaustive enumeration of batches x pre-memoized subsets (cache-resident or disk-only) x options x backends on the real runner; differential oracle = twin store driven by individual calls",
    "Every batch of length 0..3 (quick) / 0..4 (thorough) over {0,1,2, failing, not-to-be-memoized failing} with duplicates, for every subset of its memoizable elements memoized beforehand (on the cached backend each one either resident in the cache or only on disk after reopening), with raise_first_exception true/false, with no / positional / keyword partial prefix or under context arguments, through call_batch and map_over_range, on memory, filesystem and filesystem+cache backends, is compared slot by slot (values, exception class and message, which exception is raised), by body-run counts per element, and by the final store contents with element-wise evaluation on a twin store. Batches of 2-3 look-alike values (1, 1.0, True, 0, 0.0, False) through map_over_range and call_batch: each element runs its own body once and is memoized on its own. Long batches (63..130 elements, thorough to 1025, the last ten memoized) and batches issued from inside a running function compared with element-wise calls from a twin function (values, the parent's record, store; with and without context arguments).",
    "Element alphabet of 5; one function of two parameters; the local runner.",
    "DESIGN.md §3 C15")

CHECKS["C10"] = ("model_checking",
    "bounded-exhaustive enumeration of call trees x pre-memoized subsets x invocation modes x backends on the real runner, plus stateless exploration of all schedules (preemption-bounded) of two threads with overlapping call trees; oracle = provenance record folded from the call tree",
    "Root plans are all action sequences up to length 2 (quick) / 3 (thorough) over 19 actions (single call, repeated call, batch with a duplicate, failing sub-call caught or uncaught, sub-call or batch element ending with a not-to-be-memoized exception, sub-call made with ignore_result, resource handle, sub-plans to depth 3 over four automatically versioned functions); for every subset of the first 4 (6) distinct sub-invocations memoized beforehand and for single / batch-of-one / batch-of-two invocation on memory, filesystem and filesystem+cache backends, the recorded invocations (order and argument hashes), resources, dependency set and result type of the root AND of every intermediate call must equal the prediction from the tree. Concurrent part: two threads whose call trees share a sub-tree (so that a sub-call is found in the store only after the caller's pre-check missed it), every schedule with at most 1 preemption at line granularity (thorough: 2 at runner granularity) under the controlled scheduler of C09; after each execution the record of every call in both trees is compared with the static call tree.",
    "The functions interpret a plan argument, so all nodes share one static closure; only the local runner.",
    "DESIGN.md §3 C10")

CHECKS["C16"] = ("model_checking",
    "bounded-exhaustive enumeration of call trees x per-edge context overrides x ordered pairs of root contexts run on one store x backends; oracle = reference propagation model; plus stateless exploration of all schedules (preemption-bounded) of two threads under the controlled scheduler",
    "For the chain root->mid->leaf (all 9 assignments of {inherit, override with {}, override with {k:3}} to its edges) and the diamond root->{mid1,mid2}->leaf (27 quick / 81 thorough assignments), every ordered pair of root contexts from {none, {}, {k:1}, {k:2}, {k:1, j:function reference}} is run successively on one store (the root also invoked with force_local before / after the context arguments and through call_batch) (so each sub-call is met un-memoized and memoized under equal and under different effective contexts): returned values, which bodies run, that no body receives a context argument as parameter, and the context recorded in each call's memento must follow the model (own override replaces entirely, else the caller's). With further calls prevented at the root or at an inner call, the nested memento call must fail with RuntimeError and never run, whether or not its result is already memoized; after a call under context arguments / with calls prevented that failed because the store raised at its k-th look-up (k=1..3), ordinary calls are unaffected. Concurrent part: every schedule (1 preemption; thorough 2) of a chain under context arguments in one thread against calls without them in another; each call must be stored under exactly its own context arguments.",
    "Two tree shapes; contexts over two keys; local runner.",
    "DESIGN.md §3 C16")

CHECKS["C02"] = ("model_checking",
    "bounded-exhaustive enumeration of result values x backends x call modifiers, each executed on the real runner/storage; differential oracle = the plain function",
    "Every value of the result alphabet (None, bool, ints, floats incl. -0.0/NaN/inf, str, bytes, date, naive/aware datetime, Timestamp, numpy arrays of the seven dtypes empty / length 1 / with NaN, pandas Index / Series / DataFrame empty / tiny / object / NaN, in-memory and on-disk partitions, eight exception classes incl. two-argument, nested, function-local, same-named-in-two-modules and not-to-be-memoized ones; closed under list / dict to depth 1 quick, 2 thorough) on memory, filesystem and filesystem+cache (8 B, 4 KiB, 1 MiB) backends with no modifier, ignore_result, force_local, under context arguments (forget and memento through the modified function; the plain call with the same argument stays memoized) and with every call of the function stored under one shared key override (the neighbour call writes the same override key with other content); exception values are exercised after every other exception class of the alphabet (incl. a same-named class of another module) was recorded and replayed in the process: call (body once, equal and usable value), call (no body, equal value of the same type / same exception class or memoized-exception type with the message), memento() result type equals the classification of the value read back, forget, call (body once), call; a neighbour call of the same function and a twin function with byte-identical result stay memoized; a batch [memoized, new, memoized] returns the right slots.",
    "pandas values have <= 100 rows; equality is type-exact and NaN-aware; local runner.",
    "DESIGN.md §3 C02")
CHECKS["C17"] = ("model_checking",
    "bounded-exhaustive enumeration of partition merge chains x parent provenance x staging kinds x backends on the real codec/storage; oracle = dictionary overlay; plus stateless exploration of all schedules (preemption-bounded) of two threads under the controlled scheduler",
    "Chains of length 0..2 (quick) / 0..3 (thorough) of memento functions each returning a partition that declares the previous one as merge parent: own key sets per level from 5 subsets of {a,b,c} (values int / str / None / list / DataFrame / a nested partition depending on key and level), parent obtained by computing it in the nested call, by reading it back from disk after reopening, from the memory cache, or built in memory and never serialized (lowest levels; values must be right on every call whether or not the library stores the child), in-memory (also over a defaultdict) and on-disk staging in all-same and alternating patterns, chains whose levels are all stored under one shared key override, on filesystem, filesystem+cache and memory backends. The object returned by the first call, the object read back through a fresh backend, and every lower level of the chain afterwards must equal the overlay (own keys win, parent-only keys remain); the second call runs no body; get(k) of a read-back partition opens at most one data object. A function extending the partition returned by a memoized call (replace one entry, add one), and one handing it on unchanged (inner call computed / from the cache / from the store). Concurrent part: two threads memoizing partition results under every schedule (1 preemption; thorough 2), then everything read back through a fresh backend.",
    "Key alphabet of three; merge parents are set through the _merge_parent attribute as the library's own tests do.",
    "DESIGN.md §3 C17")

CHECKS["C18"] = ("model_checking",
    "exhaustive enumeration of the option matrix x supply forms x overrides x repository orders (incl. prepend/append after a first resolution); differential oracle = behavioural probes of the constructor-built twin",
    "All 90 combinations of storage type {filesystem, memory, null} x metadata_path x memory_cache_mb x readonly {absent, false, true} x runner {absent, local, null}, each supplied as inline dict (also one that was used to build an environment before), as JSON files (environment -> repository -> cluster) and as a YAML repository file with a template parameter, are compared with the cluster built from constructor arguments through behavioural probes (where data and mementos land, whether a repeated read opens files, whether memoize / forget / metadata writes are accepted, whether calls run); each environment is then dumped with to_dict() and rebuilt: same probes, and a result written through the original must be served through the rebuilt one. Nine explicit-argument overrides (incl. putting a separated metadata path back under the data path and switching a configured cache off) must win over the configuration, also after the overridden environment is dumped and rebuilt; an explicit clusters= argument of a repository replaces the clusters its config object names; a cluster changed after a first dump shows the change in the next dump. Repository lists of length 1..3 over all cluster-name subsets in every order (clusters registered under their own name or under a key that differs from their name field), also with a prepend or append of a new repository or a prepend of one already listed after a first resolution, must resolve each name to the first repository defining it (identity, where the call stores, and after dump/rebuild).",
    "Options documented for the shipped backends only; paths in scratch space.",
    "DESIGN.md §3 C18")

PENDING = {}


# what later rounds added to the explored space (appended to the claim text)
ADDED = {
    "C01": "Also: keyword-only-default-only functions, several helpers sharing one qualified name (closures of one factory) used by one function, the same attribute name missing on two objects. The first evaluation after an edit made through call_batch / map_over_range. String constants inside generator expressions.",
    "C02": "The shared key override contains '#'. An exception class that keeps a field in .message; the replayed text is judged before the appended stack trace.",
    "C03": "Also: several module-level lambdas / closures of one factory used by ONE function; a modifier clone and the original asked for their version in both orders after an in-process change. A None placeholder assigned by a later module-level statement.",
    "C04": "Also: a per-call modifier applied after context arguments. A call-time keyword overriding a keyword partial; context arguments attached over others (all ordered pairs).",
    "C05": "Also: metadata written for calls that have no memento (kept under the call, attached to a later memoization, dropped by forget_call / forget_function). Canonical states include every scalar attribute of the backend objects. Equal results memoized again (the memento written last is served); callers keep superseded arrays. A metadata key containing ':'.",
    "C06": "L3: all histories to length 4 (thorough 5) over results that measure differently the second time (160-row frames measured from a row sample with the generator seeded per history, lists / dicts the caller extends): usage == what the resident entries were credited with, within [0, budget], zero once everything is forgotten. Callers keep superseded arrays until they drop them; a cache that does not take the configured budget is a violation.",
    "C07": "Also: the store re-opened under another spelling of its path (through a symbolic link) in the alphabet; partitions written by two calls under one key override with reads in between to depth 4 (thorough 6). Results that serialize differently each time; a memento link torn by a failed rewrite, then the call forgotten.",
    "C10": "Re-versioned callee: all histories to length 4 (thorough 5) over {call mid, call top, batch top, call root, new version of leaf, new backend object} on root -> top -> {mid (pinned) -> leaf, leaf}; dependency sets of every stored call compared with a computed-once-served-afterwards model, read from the running backend and from a new backend object. The root call made in a worker thread; results (not mementos) of pre-memoized calls lost.",
    "C11": "Also: the type tag of every emitted argument node compared with a reference encoder of the Python value, date / timestamp texts; all histories to length 4 (thorough 5) of calls, edit + reload, new backend object with every stored document decoded after each event (current versions decode to the live functions, vanished ones to external stubs, decode -> encode is the identity). Functions in nested classes; dependency sets compared as references; external flags.",
    "C12": "Also: histories run with the store listed before anything is read, and with the caller defined behind a plain functools.wraps decorator. A process that lists the store without having imported the program; names and listings compared strictly after a re-cluster step.",
    "C13": "Also: a function declared auto_dependencies=False and its clones, clones asked before / after the originals, the same attribute missing on two owners, three-component dotted names; a helper re-defined until its function object sits at the address of a dead helper (version asked after every re-definition). Clones made and kept without being asked; a late symbol defined as None; a second search started after versions have been asked once. Re-binding between two functions with declared versions, closures of one factory re-bound, an alias of a builtin re-defined as a memento function; the function with declared dependencies is asked last.",
    "C14": "Also: the caller repeating the hidden call its static callee just made (callee computed / served from the store). Re-pointing under a caller with a declared version and through a plain helper; a superseded definition reached by a hidden call. Hidden calls through call_batch(raise_first_exception=False); plain helpers sharing their bare name.",
    "C15": "Also: long batches with one failing element in the raising mode (what was evaluated is the prefix up to the failure or everything, and is memoized), ranges given as one-shot iterables. Elements whose text equals another element.",
    "C16": "Also: all ordered pairs of 10 look-alike context dictionaries (1 / True / 1.0 / '1' / 0 / False / [1] / [True]) attached one after the other to one function object: call, call after a call under the first, forget through the carrying object. A prevented call to a function with a declared version (single and batch nested calls). The context under which a stored record lists its invocations (read through a new backend object).",
    "C17": "Also: keys holding equal content (two keys of one level, the same keys at several levels, two None values). Keys listed before the parent is declared. A key assigned twice on disk staging; a partition key containing '#' under a key override.",
    "C18": "Also: storage / runner type names registered 1..3 times with newer classes, environments built from a configuration, through create() and from an earlier dump. Fractional memory_cache_mb; configuration files referring to each other relatively over two levels.",
    "C19": "Canonical states include every scalar attribute of the backend objects (a history that leaves the store untouched but changes such an attribute is expanded, not merged). A copied store opened read-only.",
    "C09": "Also: One call under two spellings (direct / keyword partial); two partition results stored at the same time.",
    "C08": "Also: Operations refused with EACCES (PermissionError).",
}


def main():
    props = [json.loads(l)["id"] for l in open(os.path.join(HERE, "properties.jsonl"))]
    checks = []
    for pid in props:
        if pid not in CHECKS:
            continue
        cat, tech, text, note, ref = CHECKS[pid]
        if pid in ADDED:
            text = text.rstrip() + " " + ADDED[pid]
        checks.append({
            "property_id": pid,
            "quick_cmd": "./vfcheck %s quick" % pid,
            "thorough_cmd": "./vfcheck %s thorough" % pid,
            "evidence_file": "/verif/evidence/%s.json" % pid,
            "replay_cmd_template": "./vfcheck %s --replay {path}" % pid,
            "engine": "vf",
            "level_claimed": {"category": cat, "text": text, "design_ref": ref},
            "level_note": note,
            "technique": tech,
        })
    na = [{"property_id": p, "reason": PENDING.get(p, "check not built yet in this revision (see DESIGN.md §7 build order); no claim is made")}
          for p in props if p not in CHECKS]
    man = {
        "version": 1,
        "setup_cmd": "mkdir -p evidence violations && /venv/bin/python -m compileall -q vf >/dev/null 2>&1; true",
        "hooks": {
            "guard": "TWOSIGMA_MEMENTO_VERIF",
            "enable": "no source hooks: every seam is reached from outside (sys.settrace, sys.addaudithook, attribute patching); vfcheck exports TWOSIGMA_MEMENTO_VERIF=1 for uniformity",
            "baseline_off_cmd": "cd /repo && env -u TWOSIGMA_MEMENTO_VERIF /venv/bin/python -m pytest -q -p no:cacheprovider --timeout=900",
            "source_commits": [],
            "add_only": True,
        },
        "engines": [
            {"name": "vf", "path": "/verif/vf", "serves_properties": sorted(CHECKS),
             "kind_free_text": "hand-written explicit-state / stateless explorers in Python running the real twosigma.memento code from /repo: BFS over operation histories (vf/bfs.py), controlled thread scheduler (vf/sched.py), fault-injecting filesystem layer (vf/faultfs.py), program generator + process farm (vf/progen.py), bounded-exhaustive input enumerators"},
        ],
        "checks": checks,
        "not_applicable": na,
        "notes": "Known findings: /verif/known_findings.json (committed, never written at run time). All checks run /repo's working tree through PYTHONPATH=/repo.",
    }
    with open(os.path.join(HERE, "MANIFEST.json"), "w") as f:
        json.dump(man, f, indent=1)
        f.write("\n")


if __name__ == "__main__":
    main()

"""C06 - the memory cache is bounded, LRU and keeps honest accounts.

Level 1: explicit-state BFS over operation histories of a bare, real ``MemoryCache`` to state
closure, compared after every transition with a byte-capacity LRU reference model.
Level 2: BFS over histories of a real FilesystemStorageBackend+cache; whenever the model
predicts a cache hit, no file under the store root may be opened during the read.
"""
import gc
import os
import sys
from collections import deque

import numpy as np

from ..core import HarnessError, pmap, scratch_dir, rm
from . import c09

preimport = c09.preimport  # the concurrent part runs under the controlled scheduler (vf/sched.py)
from .. import storeh
from .. import bfs as vbfs

MB = 1024 * 1024
KEYS3 = [("fn#1", 1), ("fn#10", 1), ("fn1#1", 1)]
KEYS4 = [("fn#1", 1), ("fn#1", 2), ("fn#10", 1), ("fn1#1", 1)]

# size classes per budget: name -> bytes as accounted by the cache (sys.getsizeof)
SIZES = {
    4096: {"S": 1100, "H": 2500, "E": 4096, "X": 4097},
    1024: {"S": 1000, "H": 600, "E": 1024, "X": 1025},
}
NONE_SIZE = sys.getsizeof(None)


def mk_str(size, tick):
    s = ("%06d" % tick) + "a" * (size - sys.getsizeof("") - 6)
    if sys.getsizeof(s) != size:
        raise HarnessError("cannot build str of accounted size %d" % size)
    return s


def mk_arr(size, tick):
    base = sys.getsizeof(np.zeros(0, dtype=np.int8))
    a = np.zeros(size - base, dtype=np.int8)
    a[:4] = np.frombuffer(int(tick).to_bytes(4, "little"), dtype=np.int8)
    if sys.getsizeof(a) != size:
        raise HarnessError("cannot build ndarray of accounted size %d" % size)
    return a


def tick_of(v):
    if isinstance(v, str):
        return int(v[:6])
    if isinstance(v, np.ndarray):
        return int.from_bytes(v[:4].tobytes(), "little")
    return None


class Model:
    """Byte-capacity LRU + liveness of values. Deliberately boring."""

    def __init__(self, budget):
        self.budget = budget
        self.order = []  # least recently used first
        self.ent = {}  # key -> (size, has_value, tick, memento_tick)
        self.current = {}  # key -> tick of last value put and not forgotten
        self.cur_mem = {}  # key -> tick of last memento put and not forgotten

    def usage(self):
        return sum(e[0] for e in self.ent.values())

    def _drop(self, k):
        if k in self.ent:
            del self.ent[k]
            self.order.remove(k)

    def put(self, k, size, has_value, tick):
        self.cur_mem[k] = tick
        if has_value:
            self.current[k] = tick
        # whatever was resident for k is superseded by this write
        self._drop(k)
        if size > self.budget:
            return
        while self.order and self.usage() + size > self.budget:
            self._drop(self.order[0])
        self.ent[k] = (size, has_value, tick if has_value else None, tick)
        self.order.append(k)

    def touch(self, k):
        self.order.remove(k)
        self.order.append(k)

    def forget(self, keys):
        for k in list(keys):
            self._drop(k)
            self.current.pop(k, None)
            self.cur_mem.pop(k, None)

    def canon(self):
        return (tuple(self.order), tuple(sorted(self.ent.items())),
                tuple(sorted(self.current.items())), tuple(sorted(self.cur_mem.items())))


class Run:
    """One real MemoryCache driven by a history, with its model alongside."""

    def __init__(self, budget, keys):
        from twosigma.memento.storage_base import MemoryCache

        self.budget = budget
        self.keys = keys
        self.cache = MemoryCache(budget / MB)
        self.budget_misread = None
        if self.cache.memory_cache_bytes != budget:
            # (budget / MB is exact in binary floating point for these budgets: the cache did not take the configured size)
            self.budget_misread = self.cache.memory_cache_bytes
        self.model = Model(budget)
        self.tick = 0
        self.held = {}  # key index -> strongly held value objects (harness side)
        self.kept = {}  # key index -> a superseded value object the caller still holds
        self.mem = {}  # key index -> last memento object put
        self.log = []

    def ckey(self, ki):
        sym, arg = self.keys[ki]
        return storeh.qname(sym) + "/" + storeh.refargs(sym, arg).arg_hash

    # -- real-state observation (anchored to the implementation's state names) ------------------
    def real(self):
        c = self.cache
        try:
            order = list(c.lru_deque)
            ent = {k: (e.obj_size, bool(e.has_value), tick_of(e.value) if e.has_value else None)
                   for k, e in c.cache.items()}
            usage = c.memory_usage
            refs = sorted(c.refs.keys())
        except AttributeError as e:
            raise HarnessError("MemoryCache state names changed: %s" % e)
        return order, ent, usage, refs

    def canon(self):
        """Canonical state. Ticks only matter for equality/identity, so they are replaced by
        their rank among the ticks still present anywhere in the real or model state."""
        order, ent, usage, refs = self.real()
        m = self.model
        ticks = set()
        for e in ent.values():
            ticks.add(e[2])
        for e in m.ent.values():
            ticks.add(e[2])
            ticks.add(e[3])
        ticks.update(m.current.values())
        ticks.update(m.cur_mem.values())
        ticks.update(t for t, _ in self.mem.values())
        ticks.discard(None)
        rank = {t: i for i, t in enumerate(sorted(ticks))}
        rank[None] = None
        from ..core import object_state

        return (tuple(order),
                tuple(sorted((k, (e[0], e[1], rank[e[2]])) for k, e in ent.items())),
                usage, tuple(refs), tuple(sorted(self.held)), tuple(sorted(self.kept)), object_state(self.cache),
                tuple(m.order),
                tuple(sorted((k, (e[0], e[1], rank[e[2]], rank[e[3]])) for k, e in m.ent.items())),
                tuple(sorted((k, rank[t]) for k, t in m.current.items())),
                tuple(sorted((k, rank[t]) for k, t in m.cur_mem.items())),
                tuple(sorted((k, rank[t]) for k, (t, _) in self.mem.items())))

    # -- one transition -----------------------------------------------------------------------------
    def step(self, op):
        """Apply op to cache and model; return None or (clause, description)."""
        if self.budget_misread is not None:
            return ("budget", "configured with memory_cache_mb = %r (%d bytes) the cache works to a budget of %r bytes" % (self.budget / MB, self.budget, self.budget_misread))
        kind = op[0]
        m = self.model
        c = self.cache
        bad = None
        optional_touch = None
        if kind in ("put", "putm"):
            ki = op[1]
            sym, arg = self.keys[ki]
            self.tick += 1
            if kind == "put":
                cls = op[2]
                base = (cls[1:] or "S") if cls.startswith("A") else cls
                size = SIZES[self.budget][base]
                # a caller that got an array from an earlier call keeps holding it after the call was memoized again
                if ki in self.held:
                    self.kept[ki] = self.held.pop(ki)
                if cls.startswith("A"):
                    val = mk_arr(size, self.tick)
                    self.held[ki] = val
                else:
                    val = mk_str(size, self.tick)
                mem = storeh.mk_memento(sym, arg, val if not isinstance(val, np.ndarray) else "x", self.tick)
                self.mem[ki] = (self.tick, mem)
                c.put(mem, val, has_result=True)
                m.put(ki, size, True, self.tick)
                del val
            else:
                mem = storeh.mk_memento(sym, arg, "x", self.tick)
                self.mem[ki] = (self.tick, mem)
                c.put(mem, None, has_result=False)
                m.put(ki, NONE_SIZE, False, self.tick)
        elif kind == "read":
            ki = op[1]
            sym, arg = self.keys[ki]
            mem = self.mem[ki][1] if ki in self.mem else storeh.mk_memento(sym, arg, "x", 0)
            try:
                got = c.read_result(mem)
                hit = True
            except KeyError:
                got, hit = None, False
            e = m.ent.get(ki)
            if e is not None and e[1]:
                if not hit:
                    bad = ("hit-lost", "model predicts a hit for resident key %r, cache missed" % (self.keys[ki],))
                elif tick_of(got) != e[2]:
                    bad = ("stale-read", "read returned value #%s, last written is #%s" % (tick_of(got), e[2]))
                m.touch(ki)
            elif hit:
                if m.current.get(ki) is None or tick_of(got) != m.current.get(ki):
                    bad = ("stale-read", "read of non-resident key returned value #%s, live value is %s"
                           % (tick_of(got), m.current.get(ki)))
            del got
        elif kind == "ism":
            ki = op[1]
            sym, arg = self.keys[ki]
            got = bool(c.is_memoized(storeh.ref(sym), storeh.refargs(sym, arg).arg_hash))
            if ki in m.ent:
                if not got:
                    bad = ("hit-lost", "is_memoized false for resident key")
                optional_touch = ki
            elif got and ki not in m.cur_mem:
                bad = ("ghost", "is_memoized true for a key never written or already forgotten")
        elif kind == "getm":
            ki = op[1]
            sym, arg = self.keys[ki]
            got = c.get_mementos([storeh.rah(sym, arg)])[0]
            if ki in m.ent:
                if got is None:
                    bad = ("hit-lost", "get_mementos None for resident key")
                elif got is not self.mem[ki][1]:
                    bad = ("stale-read", "get_mementos returned a superseded memento")
                optional_touch = ki
            elif got is not None and (ki not in m.cur_mem or got is not self.mem[ki][1]):
                bad = ("ghost", "get_mementos returned a memento for a forgotten key")
        elif kind == "fc":
            ki = op[1]
            sym, arg = self.keys[ki]
            c.forget_call(storeh.rah(sym, arg))
            m.forget([ki])
        elif kind == "ff":
            sym = op[1]
            c.forget_function(storeh.ref(sym))
            m.forget([i for i, (s, _) in enumerate(self.keys) if s == sym])
        elif kind == "fe":
            c.forget_everything()
            m.forget(range(len(self.keys)))
        elif kind == "drop":
            self.held.clear()
            self.kept.clear()
            gc.collect(0)
        else:
            raise HarnessError("unknown op %r" % (op,))

        # ---- state comparison -------------------------------------------------------------------
        order, ent, usage, refs = self.real()
        want = [self.ckey(k) for k in m.order]
        if optional_touch is not None and order != want:
            alt = list(m.order)
            alt.remove(optional_touch)
            alt.append(optional_touch)
            if order == [self.ckey(k) for k in alt]:
                m.order = alt
                want = order
        inv = None
        if usage != sum(e[0] for e in ent.values()):
            inv = ("accounting", "usage counter %s != %s accounted by resident entries" % (usage, sum(e[0] for e in ent.values())))
        elif usage > self.budget:
            inv = ("over-budget", "usage %s exceeds budget %s" % (usage, self.budget))
        elif any(e[0] > self.budget for e in ent.values()):
            inv = ("oversize-resident", "an entry larger than the budget is resident")
        elif sorted(order) != sorted(ent) or len(set(order)) != len(order):
            inv = ("index", "recency list %s inconsistent with resident set %s" % (order, sorted(ent)))
        elif order != want:
            inv = ("lru-order", "resident sequence %s, LRU model says %s" % (self.names(order), self.names(want)))
        else:
            for k in m.order:
                if ent[self.ckey(k)] != m.ent[k][:3]:
                    inv = ("entry", "resident entry %r is %s, model says %s" % (self.keys[k], ent[self.ckey(k)], m.ent[k][:3]))
                    break
        if inv is None and not m.ent and usage != 0:
            inv = ("accounting", "everything forgotten but usage is %s" % usage)
        bad = bad or inv
        self.log.append({"op": list(op), "resident": self.names(order), "usage": usage,
                         "model": [self.keys[k] for k in m.order], "bad": bad})
        return bad

    def names(self, order):
        rev = {self.ckey(i): "%s/%s" % self.keys[i] for i in range(len(self.keys))}
        return [rev.get(k, k) for k in order]


def alphabet(keys, classes):
    ops = []
    for ki in range(len(keys)):
        for c in classes:
            ops.append(("put", ki, c))
        ops.append(("putm", ki))
        ops.append(("read", ki))
        ops.append(("ism", ki))
        ops.append(("getm", ki))
        ops.append(("fc", ki))
    for sym in sorted({s for s, _ in keys}):
        ops.append(("ff", sym))
    ops.append(("fe",))
    if any(c.startswith("A") for c in classes):
        ops.append(("drop",))
    return ops


def build(budget, keys, hist):
    r = Run(budget, keys)
    for op in hist:
        r.step(op)
    return r


def pre_state(run, op):
    """Abstract descriptor of the touched key before the failing op (for the signature)."""
    if len(op) < 2 or not isinstance(op[1], int):
        return "-"
    e = run.model.ent.get(op[1])
    if e is None:
        return "absent"
    return "resident" if e[1] else "resident-memento-only"


def expand(cfg, hist):
    budget, keys, classes, seed = cfg
    ops = alphabet(keys, classes)
    if seed:
        import random

        random.Random(seed).shuffle(ops)
    out = []
    for op in ops:
        run = build(budget, keys, hist)
        pre = pre_state(run, op)
        bad = run.step(op)
        if bad:
            clause, what = bad
            sig = "L1|B%d|%s%s|%s|%s" % (budget, op[0], (":" + op[2]) if op[0] == "put" else "", pre, clause)
            out.append((op, None, (sig, what + "\nhistory: %s" % (list(hist) + [op],),
                                   {"level": 1, "budget": budget, "keys": keys,
                                    "history": [list(o) for o in hist] + [list(op)]}), None))
            continue
        k = run.canon()
        out.append((op, vbfs.digest(k), None, "B%d:%r" % (budget, k[:2])))
    return out


# ---------------------------------------------------------------------------------------------
# level 2: backend + cache, "served without touching the underlying store"
# ---------------------------------------------------------------------------------------------

_audit = {"on": False, "root": None, "events": []}
_audit_installed = False


def _hook(event, args):
    if not _audit["on"]:
        return
    if event == "open":
        p = args[0]
        if isinstance(p, (str, bytes, os.PathLike)):
            p = os.fspath(p)
            if isinstance(p, bytes):
                p = p.decode("utf-8", "replace")
            if p.startswith(_audit["root"]):
                _audit["events"].append(("open", p))
    elif event in ("os.listdir", "os.scandir"):
        p = args[0]
        if isinstance(p, str) and p.startswith(_audit["root"]):
            _audit["events"].append((event, p))


def install_audit():
    global _audit_installed
    if not _audit_installed:
        sys.addaudithook(_hook)
        _audit_installed = True


def l2_run(hist, budget, keys, root):
    """Replay hist on a fresh FilesystemStorageBackend+cache; return first (clause, what) or None."""
    from twosigma.memento.storage_filesystem import FilesystemStorageBackend

    rm(root)
    os.makedirs(root)
    be = FilesystemStorageBackend(path=root, memory_cache_mb=budget / MB)
    model = Model(budget)
    stored = {}  # ki -> (tick, memento)
    tick = 0
    for op in hist:
        kind, ki = op[0], op[1]
        sym, arg = keys[ki]
        if kind == "memo":
            tick += 1
            size = SIZES[budget][op[2]]
            val = mk_str(size, tick)
            mem = storeh.mk_memento(sym, arg, val, tick)
            be.memoize(None, mem, val)
            stored[ki] = (tick, mem)
            model.put(ki, size, True, tick)
        elif kind == "getm":
            got = be.get_memento(storeh.rah(sym, arg))
            if (got is None) != (ki not in stored):
                return ("l2-lookup", "get_memento presence wrong for %r" % (keys[ki],))
            if got is not None and ki not in model.ent:
                # cache fill with memento only
                model.put(ki, NONE_SIZE, False, stored[ki][0])
                # put() above marks the value as not superseded: restore liveness
                model.current[ki] = stored[ki][0]
        elif kind == "read":
            if ki not in stored:
                continue
            e = model.ent.get(ki)
            predicted_hit = e is not None and e[1]
            # fetch the memento the way a caller would (may itself fill the cache)
            mem = be.get_memento(storeh.rah(sym, arg))
            if mem is None:
                return ("l2-lookup", "stored memento not found for %r" % (keys[ki],))
            if ki not in model.ent:
                model.put(ki, NONE_SIZE, False, stored[ki][0])
                model.current[ki] = stored[ki][0]
            _audit["events"] = []
            _audit["root"] = root
            _audit["on"] = True
            try:
                got = be.read_result(mem)
            finally:
                _audit["on"] = False
            if tick_of(got) != stored[ki][0]:
                return ("l2-stale", "read_result returned value #%s, last memoized #%s" % (tick_of(got), stored[ki][0]))
            if predicted_hit:
                if _audit["events"]:
                    return ("l2-store-touched", "model predicts a cache hit for %r but the read opened %s"
                            % (keys[ki], _audit["events"][:2]))
                model.touch(ki)
            else:
                # miss: the backend refills the cache with the value just read
                model.put(ki, sys.getsizeof(got), True, stored[ki][0])
        elif kind == "fc":
            be.forget_call(storeh.rah(sym, arg))
            stored.pop(ki, None)
            model.forget([ki])
        # accounting invariants on the backend's cache
        c = be._memory_cache
        ent = {k: e.obj_size for k, e in c.cache.items()}
        if c.memory_usage != sum(ent.values()) or c.memory_usage > budget:
            return ("l2-accounting", "usage %s vs resident %s (budget %s)" % (c.memory_usage, sum(ent.values()), budget))
    return None


def l2_bfs(cfg):
    budget, keys, depth = cfg[:3]
    first = cfg[3] if len(cfg) > 3 else None
    install_audit()
    root = os.path.join(scratch_dir("c06l2"), "store")
    ops = []
    for ki in range(len(keys)):
        ops += [("memo", ki, "S"), ("memo", ki, "H"), ("memo", ki, "X"), ("getm", ki), ("read", ki), ("fc", ki)]
    res = {"states": 0, "transitions": 0, "traces": 0, "violations": [], "outcomes": set(), "samples": []}
    level = [()]
    hits = 0
    for d in range(depth):
        nxt = []
        for hist in level:
            for op in (ops if (d > 0 or first is None) else [ops[first]]):
                h = hist + (op,)
                bad = l2_run(h, budget, keys, root)
                res["transitions"] += 1
                res["traces"] += 1
                if bad:
                    clause, what = bad
                    sig = "L2|B%d|%s|%s" % (budget, op[0] + (":" + op[2] if len(op) > 2 else ""), clause)
                    res["violations"].append((sig, what + "\nhistory: %s" % (list(h),),
                                              {"level": 2, "budget": budget, "keys": keys, "history": [list(o) for o in h]}))
                    continue
                res["states"] += 1
                nxt.append(h)
        level = nxt
    res["outcomes"] = sorted("L2:%s" % (h,) for h in level[:50])
    if level:
        res["samples"].append({"level": 2, "budget": budget, "history": [list(o) for o in level[len(level) // 2]]})
    rm(os.path.dirname(root))
    return res


# -- L3: values whose size does not measure the same twice ---------------------------------------------
# A frame of more than 100 rows is measured from a random sample of its rows; a list / dict result is handed out by
# reference and the caller may extend it afterwards. Whatever an entry was credited with when it was put is what has to be
# given back when it goes, however the value measures by then.
L3_BUDGET = 1 * MB


def l3_value(cls, tick):
    import pandas as pd

    if cls == "F":  # strings of uneven length: two sample-based estimates differ
        return pd.DataFrame({"t%06d" % tick: ["x" * ((i * 7 + tick) % 23) for i in range(160)], "n": list(range(160))})
    if cls == "G":  # a list the caller keeps and extends
        return ["%06d" % tick + "g" * 50, "a", "b"]
    if cls == "K":  # a dict the caller keeps and extends
        return {"t": "%06d" % tick, "k": "v" * 40}
    raise HarnessError("unknown L3 class %r" % cls)


def l3_run(hist, keys):
    """Replay one history on a fresh MemoryCache; None or (clause, description)."""
    import random

    from twosigma.memento.storage_base import MemoryCache

    np.random.seed(20240917)  # the sampling of rows draws from the process-wide generator: owned per history
    random.seed(20240917)
    c = MemoryCache(L3_BUDGET / MB)
    held, mems, live = {}, {}, {}
    tick = 0
    for op in hist:
        kind, ki = op[0], op[1]
        sym, arg = keys[ki] if isinstance(ki, int) else (None, None)
        if kind == "put":
            tick += 1
            val = l3_value(op[2], tick)
            mem = storeh.mk_memento(sym, arg, "x", tick)
            c.put(mem, val, has_result=True)
            held[ki], mems[ki], live[ki] = val, mem, tick
        elif kind == "grow":
            v = held.get(ki)
            if isinstance(v, list):
                v.extend(["grown" * 20] * 40)
            elif isinstance(v, dict):
                v.update({"g%d" % i: "grown" * 20 for i in range(40)})
            else:
                continue
        elif kind == "read":
            if ki not in mems:
                continue
            try:
                got = c.read_result(mems[ki])
            except KeyError:
                got = None
            if ki in live and got is not None:
                # (frames are copied on the way in; lists and dicts are kept by reference)
                same = got.equals(held[ki]) if hasattr(got, "equals") else got is held[ki]
                if not same:
                    return ("l3-stale-read", "read of %s/%s returned something else than the value last put" % (sym, arg))
            if ki not in live and got is not None:
                return ("l3-ghost", "read of forgotten %s/%s returned a value" % (sym, arg))
        elif kind == "fc":
            c.forget_call(storeh.rah(sym, arg))
            live.pop(ki, None)
        elif kind == "ff":
            c.forget_function(storeh.ref(op[1]))
            for k, (s_, _) in enumerate(keys):
                if s_ == op[1]:
                    live.pop(k, None)
        resident = sum(e.obj_size for e in c.cache.values())
        if c.memory_usage != resident:
            return ("l3-accounting", "after %s: usage %s, the resident entries were credited with %s" % (op, c.memory_usage, resident))
        if c.memory_usage > L3_BUDGET or c.memory_usage < 0:
            return ("l3-budget", "after %s: usage %s outside [0, %s]" % (op, c.memory_usage, L3_BUDGET))
        if not live and (c.memory_usage != 0 or c.cache):
            return ("l3-residue", "after %s: everything was forgotten, usage is %s with %d entries" % (op, c.memory_usage, len(c.cache)))
    return None


def l3_ops(keys):
    ops = []
    for ki in range(len(keys)):
        ops += [("put", ki, "F"), ("put", ki, "G"), ("put", ki, "K"), ("grow", ki), ("read", ki), ("fc", ki)]
    ops.append(("ff", keys[0][0]))
    return ops


def l3_part(cfg):
    keys, depth, first = cfg
    ops = l3_ops(keys)
    res = {"states": 0, "transitions": 0, "traces": 0, "violations": [], "outcomes": set(), "samples": []}
    level = [(ops[first],)]
    for d in range(depth):
        nxt = []
        for h in level:
            bad = l3_run(h, keys)
            res["transitions"] += 1
            res["traces"] += 1
            if bad:
                sig = "L3|%s|%s" % (h[-1][0] + (":" + h[-1][2] if len(h[-1]) > 2 else ""), bad[0])
                res["violations"].append((sig, bad[1] + "\nhistory: %s" % (list(h),), {"level": 3, "keys": keys, "history": [list(o) for o in h]}))
                continue
            res["states"] += 1
            if d + 1 < depth:
                nxt += [h + (op,) for op in ops]
        level = nxt
    res["outcomes"] = ["L3:first=%s" % (ops[first],)]
    return res


def run(ctx):
    thorough = ctx.tier == "thorough"
    ctx.rule = ("L1: BFS over MemoryCache op histories (put by size class S/H/E/X and weak-referenceable A/AX, "
                "put memento-only, read, is_memoized, get_mementos, forget call/function/everything, drop harness "
                "refs) to closure of the canonical real state; a state is non-trivial/distinct by its (recency "
                "sequence, resident entries) pair. L2: all histories to a depth on FilesystemStorageBackend+cache "
                "with open() audit under the store root. L3: all histories to a depth over results that measure differently the second time "
                "(frames of 160 rows measured from a row sample, lists / dicts the caller extends): usage == what the resident entries were credited with, "
                "within [0, budget], zero once everything is forgotten.")
    ctx.assumptions += ["size of a str/ndarray value is sys.getsizeof as used by the cache",
                        "get_mementos / is_memoized hits may or may not refresh recency (both accepted)",
                        "CPython refcounting frees dropped arrays immediately (weak reference liveness)"]
    cfgs = []
    keys = KEYS4 if thorough else KEYS3
    cap = 2000000 if thorough else 200000
    for budget in (4096, 1024):
        cfgs.append((budget, keys, ("S", "H", "E", "X"), ctx.seed))
        cfgs.append((budget, KEYS3[:2] if not thorough else KEYS3, ("S", "X", "A", "AX"), ctx.seed))
    # determinism self-check: one history twice
    h = (("put", 0, "S"), ("put", 1, "H"), ("read", 0), ("put", 2 % len(keys), "H"), ("fc", 1))
    a = build(4096, keys, h).canon()
    b = build(4096, keys, h).canon()
    ctx.selfcheck("same history twice gives the same canonical state", a == b)
    results = []
    for c in cfgs:
        init = vbfs.digest(build(c[0], c[1], ()).canon())
        results.append(vbfs.explore(expand, c, init, max_states=cap, label="L1 B%d %s" % (c[0], "".join(c[2]))))
    ctx.merge(results)
    ctx.extra["closure_reached"] = all(r["closure"] for r in results)
    ctx.extra["l1_configs"] = [{"budget": c[0], "keys": len(c[1]), "classes": list(c[2]), "states": r["states"],
                                "transitions": r["transitions"], "max_depth": r["depth"], "closure": r["closure"]}
                               for c, r in zip(cfgs, results)]
    l2cfg = [(4096, KEYS3[:2], 5 if thorough else 4), (1024, KEYS3[:2], 5 if thorough else 4), (4096, KEYS3, 3 if thorough else 2)]
    l2 = pmap(l2_bfs, [c + (i,) for c in l2cfg for i in range(6 * len(c[1]))], chunksize=1)
    ctx.merge(l2)
    ctx.extra["l2_histories"] = sum(r["transitions"] for r in l2)
    # L3: results that measure differently the second time (sampled frames, lists / dicts extended by the caller)
    l3keys = KEYS3[:2]
    l3depth = 5 if thorough else 4
    a3 = l3_run((("put", 0, "F"), ("put", 1, "G"), ("grow", 1), ("fc", 0)), l3keys)
    b3 = l3_run((("put", 0, "F"), ("put", 1, "G"), ("grow", 1), ("fc", 0)), l3keys)
    ctx.selfcheck("L3 history twice gives the same verdict", a3 == b3)
    l3 = pmap(l3_part, [(l3keys, l3depth, i) for i in range(len(l3_ops(l3keys)))], chunksize=1)
    ctx.merge(l3)
    ctx.extra["l3_histories"] = sum(r["transitions"] for r in l3)
    # the same invariants when two threads use the cache at the same time (hits racing with write-throughs / evictions)
    cs = [("fs+cache-one|cache|same", "fs+cache-one", "cache", [[("g", 1)], [("g", 1)]]),
          ("fs+cache-one|cache|diff", "fs+cache-one", "cache", [[("g", 1)], [("g", 2)]]),
          ("fs+cache-one|store|diff", "fs+cache-one", "store", [[("g", 1)], [("g", 2)]]),
          ("fs+cache-all|store|same", "fs+cache-all", "store", [[("g", 1)], [("g", 1)]]),
          # one caller only looks the call up (ignores the result) while the other reads and caches the value
          ("fs+cache-one|store|ignore-vs-call", "fs+cache-one", "store", [[("g!ignore", 1)], [("g", 1)]])]
    c09.concurrent_part(ctx, cs, False, "two threads hitting / filling a cache that fits one entry (or all): usage == what the resident entries "
                        "account for, recency list consistent, final cache as after a sequential order", bound=1, deep=(2, "runner", "calls") if thorough else None)
    ctx.count(evaluations=ctx.transitions)


def replay(ctx, art):
    a = art["artefact"]
    if "scn" in a:
        return c09.replay_concurrent("C06", art)
    keys = [tuple(k) for k in a["keys"]]
    hist = [tuple(o) for o in a["history"]]
    if a["level"] == 3:
        bad = l3_run(hist, keys)
    elif a["level"] == 1:
        r = Run(a["budget"], keys)
        bad = None
        for op in hist:
            bad = r.step(op)
        for line in r.log:
            print(line)
    else:
        install_audit()
        root = os.path.join(scratch_dir("rp"), "store")
        bad = l2_run(hist, a["budget"], keys, root)
    print("REPLAY property=C06 result=%s" % (bad,))
    return 1 if bad else 0

"""C05 - every storage backend behaves like one dictionary of memoized calls.

Explicit-state BFS over storage-operation histories on the real backends (memory, filesystem,
filesystem + write-through cache of 4 KiB / 64 KiB, shared or separate metadata path); every
answer is compared with a plain dictionary and every distinct canonical state is probed as a
whole through a second, cache-less view (engine: vf/storemc.py).
"""
from .. import storemc
from ..storemc import KEYS


def configs(tier, seed):
    cfgs = []
    if tier == "quick":
        full = ("s", "X", "N", "E")
        for b in ("mem", "fs", "fsc4", "fsc4+m"):
            cfgs.append(("c05", b, KEYS, full, False, 3 if b != "fs" else 2, seed))
        for b in ("mem", "fs+m", "fsc4", "fsc64"):
            cfgs.append(("c05", b, KEYS[1:3], ("s", "L", "X"), True, 5 if b == "mem" else 4, seed))
        # weak-referenceable results (arrays the caller keeps holding), fitting and oversize, next to strings
        cfgs.append(("c05", "fsc4", KEYS[1:3], ("s", "A", "AX"), True, 4, seed))
        # equal results memoized again (same bytes, another memento): look-ups must give the memento written last
        cfgs.append(("c05", "fsc4", KEYS[1:3], ("s", "D"), True, 4, seed))
        cfgs.append(("c05", "fsc64", KEYS[1:3], ("D",), True, 4, seed))
        # every history kept apart (no state merging) on a small alphabet: hidden state a change may
        # add to the library cannot be merged away by the canonical form
        for b in ("mem", "fs", "fsc4"):
            cfgs.append(("c05nm", b, KEYS[1:3], ("s", "X"), True, 3, seed))
    else:
        for b in ("mem", "fs", "fsc4", "fs+m"):
            cfgs.append(("c05nm", b, KEYS[1:3], ("s", "X", "N"), True, 4, seed))
        full = ("s", "L", "X", "N", "E")
        # (depths chosen so that the tier finishes in about an hour on 16 cores: the alphabet has grown to some 45 operations)
        for b in ("mem", "fs", "fs+m", "fsc4", "fsc4+m", "fsc64"):
            cfgs.append(("c05", b, KEYS, full, False, 4 if b in ("mem", "fsc4") else 3, seed))
        for b in ("mem", "fs", "fs+m", "fsc4", "fsc64"):
            cfgs.append(("c05", b, KEYS[1:3], ("s", "L", "X", "N"), True, 6 if b == "mem" else 5, seed))
        for b in ("fsc4", "fsc4+m", "mem"):
            cfgs.append(("c05", b, KEYS[1:3], ("s", "L", "A", "AX"), True, 5 if b == "mem" else 4, seed))
        cfgs.append(("c05", "fsc4", KEYS[1:3], ("s", "D"), True, 5, seed))
        cfgs.append(("c05", "fsc4", KEYS, ("s", "A", "AX"), False, 3, seed))
    return cfgs


def run(ctx):
    ctx.rule = ("BFS over storage-op histories (memoize by value class s/L/X/None/exception/held array fitting or oversize with and without key "
                "override, get_memento, read_result, is_memoized, is_all_memoized, forget call/function/everything, "
                "list_functions, list_mementos[limit], write/read metadata incl. stored-with-data) on real backends; "
                "one history kept per canonical real state (file tree + cache + model, uuids and write ticks ranked); "
                "each distinct state probed through a fresh cache-less view. distinct = canonical real states.")
    ctx.assumptions += ["metadata is written only for existing mementos (the function-level API enforces this)",
                        "metadata stored with a data object is undefined once the result is re-memoized",
                        "booleans are compared by truthiness"]
    c0 = ("c05", "fsc4", KEYS, ("s", "X"), False, 3, 0)
    h = (("memo", 0, "s", None), ("memo", 1, "X", None), ("read", 0), ("fc", 1))
    ctx.selfcheck("same history twice gives the same canonical state",
                  storemc.build(c0, h).canon() == storemc.build(c0, h).canon())
    storemc.run_configs(ctx, configs(ctx.tier, ctx.seed))


def replay(ctx, art):
    return storemc.replay_history(art)

"""Functions for the re-versioned-callee part of C10: mid is pinned (explicit version) and calls leaf; leaf is later
re-defined with another version (the stored result of mid stays valid and keeps naming the leaf version it used);
top calls mid and leaf, root calls top."""
import sys

import twosigma.memento as m

LEAF_SRC = '''
@m.memento_function(cluster="vfc", version=%r)
def leaf(x):
    sys.audit("vf.body", "leaf", {"x": x})
    return ["leaf", %r, x]
'''

exec(compile(LEAF_SRC % ("1", "1"), __file__ + ":leaf1", "exec"), globals())


@m.memento_function(cluster="vfc", version="1")
def mid(x):
    sys.audit("vf.body", "mid", {"x": x})
    return ["mid", leaf(x)]


@m.memento_function(cluster="vfc", version="1", dependencies=[mid, "leaf"])
def top_ml(x):
    sys.audit("vf.body", "top_ml", {"x": x})
    return ["top", mid(x), leaf(x)]


@m.memento_function(cluster="vfc", version="1", dependencies=[mid, "leaf"])
def top_lm(x):
    sys.audit("vf.body", "top_lm", {"x": x})
    return ["top", leaf(x), mid(x)]


@m.memento_function(cluster="vfc", version="1", dependencies=[top_ml, top_lm])
def root(x, which):
    sys.audit("vf.body", "root", {"x": x})
    return ["root", (top_ml if which == "ml" else top_lm)(x)]


def set_leaf(version):
    exec(compile(LEAF_SRC % (version, version), __file__ + ":leaf" + version, "exec"), globals())

"""C08 - a crash or I/O fault at any point of a write never poisons the filesystem store.

For every scenario the fault-free log of mutating file-system operations is recorded (twice,
must be identical, and cross-checked against the audit monitor); then for EVERY operation index
and EVERY applicable fault kind phase 1 runs with the fault in a forked child (a crash is a
real process death), and phase 2 runs in another fresh child on the damaged directory.
"""
import os
import pickle
import shutil
import sys
import traceback

from ..core import HarnessError, pmap, scratch_dir, rm
from .. import audit
from ..faultfs import FaultFS, CRASH_EXIT, KINDS_OPEN, KINDS_OTHER, KINDS_READ

MB = 1024 * 1024

# scenario = (name, phase-1 steps).  step = ("call", fn, arg) | ("forget", fn, arg) | ("putmeta", fn, arg, with_data)
SCENARIOS = [
    ("S1-str", [("call", "f_str", 1)]),
    ("S2-dedup", [("call", "f_same_a", 1), ("call", "f_same_b", 1)]),
    ("S3-override", [("call", "f_override", 1)]),
    ("S4-partition", [("call", "f_part", 1)]),
    ("S5-exception", [("call", "f_exc", 1)]),
    ("S6-forget-recall", [("call", "f_str", 1), ("forget", "f_str", 1), ("call", "f_str", 1)]),
    ("S7-metadata", [("call", "f_str", 1), ("putmeta", "f_str", 1, False), ("putmeta", "f_str", 1, True)]),
    ("S8-two-args", [("call", "f_str", 1), ("call", "f_str", 2)]),
    ("S9-none-and-part-share", [("call", "f_none", 1), ("call", "f_same_a", 1), ("call", "f_part", 1)]),
    ("S10-oversize-for-cache", [("call", "f_big", 1)]),
    ("S11-partition-merge", [("call", "f_child", 1)]),
    ("S12-prevented-then-plain", [("callpfc", "f_str", 1), ("call", "f_str", 2)]),
]


def setup_env(root, cache):
    import twosigma.memento as m
    from twosigma.memento.storage_filesystem import FilesystemStorageBackend
    from .. import storemc

    storemc.own_uuids()
    kw = {"path": os.path.join(root, "d")}
    if cache:
        kw["memory_cache_mb"] = cache / MB
    be = FilesystemStorageBackend(**kw)
    cluster = m.FunctionCluster(name="vfc", storage=be)
    m.Environment.set(m.Environment(name="vfenv", base_dir=root,
                                    repos=[m.ConfigurationRepository(name="vfrepo", clusters={"vfc": cluster})]))
    return be


def observe(value):
    from twosigma.memento.partition import Partition

    if isinstance(value, Partition):
        return ("part", {k: value.get(k) for k in value.list_keys()})
    return ("val", value)


def run_steps(steps, result):
    """Execute steps, appending (step, outcome, bodies) to result (a list shared with the caller
    so that a crash keeps what was observed so far - not needed here, the pipe is written at end)."""
    from ..fixtures import c08fx as fx

    for st in steps:
        audit.bodies_reset()
        kind, name, arg = st[0], st[1], st[2]
        f = getattr(fx, name)
        try:
            if kind == "call":
                out = observe(f(arg))
            elif kind == "callpfc":  # the same call made with further (nested) calls prevented
                out = observe(f.with_prevent_further_calls(True)(arg))
            elif kind == "forget":
                f.forget(arg)
                out = ("done", None)
            else:
                f.put_metadata("log%d" % int(st[3]), b"meta-bytes", arg, store_with_data=st[3])
                out = ("done", None)
        except Exception as e:
            out = ("exc", (type(e).__name__, str(e)[:60]))
        result.append((st, out, [b[0] for b in audit.bodies()]))


def child(root, cache, steps, plan, uuid_base, record_audit=False):
    """Fork a child that runs steps under the fault layer. Returns (exit_status, payload|None)."""
    r, w = os.pipe()
    pid = os.fork()
    if pid == 0:
        code = 0
        try:
            os.close(r)
            from .. import storemc

            be = setup_env(root, cache)
            storemc._Uuid.n = uuid_base
            fs = FaultFS([root], reads=True)
            fs.plan = dict(plan)
            res = []
            fs.install()
            try:
                if record_audit:
                    with audit.watch(root) as wt:
                        run_steps(steps, res)
                    aud = [e for e in wt.mutations]
                else:
                    run_steps(steps, res)
                    aud = None
            finally:
                fs.uninstall()
            with os.fdopen(w, "wb") as f:
                pickle.dump({"results": res, "oplog": fs.log, "audit": aud, "fired": sorted(fs.fired)}, f)
        except BaseException:
            code = 3
            try:
                sys.stderr.write(traceback.format_exc())
            except Exception:
                pass
        os._exit(code)
    os.close(w)
    with os.fdopen(r, "rb") as f:
        data = f.read()
    _, status = os.waitpid(pid, 0)
    code = os.waitstatus_to_exitcode(status)
    payload = pickle.loads(data) if data else None
    return code, payload


def phase2_steps(steps):
    seen = []
    for st in steps:
        if st[0] in ("call", "callpfc") and (st[1], st[2]) not in seen:
            seen.append((st[1], st[2]))
    out = []
    for name, arg in seen:
        out += [("call", name, arg)] * 3
    return out


def check_value(st, out):
    from ..fixtures import c08fx as fx

    want = fx.expected(st[1], st[2])
    if want[0] == "exc":
        return out[0] == "exc" and out[1][0] == want[1][0] and out[1][1].startswith(want[1][1])
    return out == want


def judge_phase(results, tag, must_serve):
    """Return (clause, what) or None. must_serve: body count per (fn,arg) must be <=1 over the phase."""
    counts = {}
    for st, out, bodies in results:
        if st[0] not in ("call", "callpfc"):
            continue
        if not check_value(st, out):
            kind = "raised" if out[0] == "exc" else "wrong-value"
            return ("%s-%s" % (tag, kind), "%s %s(%s) gave %r" % (tag, st[1], st[2], out))
        counts[(st[1], st[2])] = counts.get((st[1], st[2]), 0) + len([b for b in bodies if b == st[1]])
    if must_serve:
        for k, n in counts.items():
            if n > 1:
                return ("%s-recomputes" % tag, "%s: body of %s(%s) ran %d times in 3 calls: recomputation is permanent" % (tag, k[0], k[1], n))
    return None


def record(scn, cache):
    """Fault-free op log of a scenario (run in a child, with audit cross-check)."""
    name, steps = scn
    root = os.path.join(scratch_dir("c08rec"), "store")
    os.makedirs(root)
    code, pay = child(root, cache, steps, {}, 0, record_audit=True)
    rm(os.path.dirname(root))
    if code != 0 or pay is None:
        raise HarnessError("fault-free recording of %s failed (exit %s)" % (name, code))
    bad = judge_phase(pay["results"], "fault-free", False)
    if bad:
        raise HarnessError("fault-free run of %s is already wrong: %s" % (name, bad))
    # every audited mutation must have been announced by the interposition layer
    amap = {"open-w": "open-w", "os.mkdir": "mkdir", "os.remove": "unlink", "os.rename": "rename", "os.rmdir": "rmdir",
            "shutil.rmtree": "rmtree", "os.truncate": "truncate", "os.replace": "rename", "os.unlink": "unlink"}
    # (CPython reports os.replace under the audit event os.rename, os.remove under os.remove / os.unlink)
    seen = [{"remove": "unlink", "replace": "rename"}.get(k, k) for k, _ in pay["oplog"] if k != "open-r"]
    for ev, p in pay["audit"]:
        k = amap.get(ev)
        if k is None or k not in seen:
            raise HarnessError("unowned I/O: audit saw %s on %s which the fault layer did not intercept" % (ev, p))
        seen.remove(k)
    return pay["oplog"]


def fault_case(args):
    si, cache, idx, kind, second = args[:5]
    name, steps = SCENARIOS[si]
    top = scratch_dir("c08")
    root = os.path.join(top, "store")
    os.makedirs(root)
    out = {"evaluations": 1, "transitions": 1, "traces": 1, "violations": [], "outcomes": []}
    try:
        # a reported error leaves the process alive: it keeps calling (three more calls of everything) before the restart
        later = phase2_steps(steps) if not kind.startswith("crash") else []
        code1, pay1 = child(root, cache, steps + later, {idx: kind}, 0)
        crashed = code1 == CRASH_EXIT
        if code1 not in (0, CRASH_EXIT):
            raise HarnessError("phase-1 child died unexpectedly (exit %s) in %s fault %s@%d" % (code1, name, kind, idx))
        if not crashed and pay1 is not None and idx not in pay1["fired"]:
            # e.g. a write fault planned on a file that is created empty and never written
            out["outcomes"].append("%s|%s|not-applicable" % (name, kind))
            out["skipped"] = 1
            return out
        if kind.startswith("crash") and not crashed:
            raise HarnessError("planned crash %s@%d of %s did not happen (op log changed?)" % (kind, idx, name))
        bad = None
        if not crashed:
            # the process survived an injected error: callers must not see it
            res = [r for r in pay1["results"][:len(steps)] if r[0][0] in ("call", "callpfc")]
            bad = judge_phase(res, "same-process", False) or judge_phase(pay1["results"][len(steps):], "same-process-later", True)
        p2 = phase2_steps(steps)
        if bad is None and second is None:
            code2, pay2 = child(root, cache, p2, {}, 1000)
            if code2 != 0 or pay2 is None:
                raise HarnessError("phase-2 child failed (exit %s)" % code2)
            bad = judge_phase(pay2["results"], "after-restart", True)
            out["outcomes"].append("%s|%s|%s" % (name, kind, [(r[1][0], len(r[2])) for r in pay2["results"]]))
        elif bad is None:
            # second fault during recovery, then a third, fault-free phase
            j, kind2 = second
            code2, pay2 = child(root, cache, p2, {j: kind2}, 1000)
            if code2 not in (0, CRASH_EXIT):
                raise HarnessError("phase-2 child died unexpectedly (exit %s)" % code2)
            if code2 == 0:
                bad = judge_phase(pay2["results"], "recovery-with-error", False)
            if bad is None:
                code3, pay3 = child(root, cache, p2, {}, 2000)
                if code3 != 0 or pay3 is None:
                    raise HarnessError("phase-3 child failed (exit %s)" % code3)
                bad = judge_phase(pay3["results"], "after-second-restart", True)
                out["outcomes"].append("%s|%s+%s|%s" % (name, kind, kind2, [(r[1][0], len(r[2])) for r in pay3["results"]]))
        if bad:
            opname = args[5] if len(args) > 5 else "?"
            sig = "%s|%s|%s|%s%s" % (name, opname, kind, bad[0], "|second=%s" % (second[1],) if second else "")
            out["violations"].append((sig, bad[1] + "\nscenario=%s cache=%s fault=%s at op #%d (%s)%s" % (
                name, cache, kind, idx, opname, " then %s at phase-2 op #%d" % (second[1], second[0]) if second else ""),
                {"scenario": si, "cache": cache, "idx": idx, "kind": kind, "second": second, "op": opname}))
    finally:
        rm(top)
    return out


def op_class(entry):
    """Abstract name of the target of a mutating op, for signatures: which kind of file."""
    kind, rel = entry
    base = os.path.basename(rel)
    if ".versions" in rel:
        what = "memento-object" if base.endswith(".memento.json") else ("metadata-object" if ".metadata." in base or ".meta." in base else "data-object")
        if kind == "mkdir":
            what = "versions-dir"
    elif base.endswith(".memento.json.link"):
        what = "memento-link"
    elif base.endswith(".link"):
        what = "metadata-link" if ".metadata." in base else "data-link"
    else:
        what = "dir" if kind in ("mkdir", "rmdir") else "other"
    return "%s:%s" % (kind, what)


def phase2_log(si, cache, idx, kind):
    """Op log of the recovery phase after a first fault (recorded on a scratch copy)."""
    name, steps = SCENARIOS[si]
    top = scratch_dir("c08p2")
    root = os.path.join(top, "store")
    os.makedirs(root)
    try:
        code1, _ = child(root, cache, steps, {idx: kind}, 0)
        code2, pay2 = child(root, cache, phase2_steps(steps), {}, 1000)
        if code2 != 0 or pay2 is None:
            return []
        return pay2["oplog"]
    finally:
        rm(top)


def _p2task(a):
    return (a, phase2_log(*a))


def run(ctx):
    thorough = ctx.tier == "thorough"
    ctx.level = "fault_enumeration"
    ctx.rule = ("for each of %d memoization scenarios x {no cache, 64 KiB cache}: EVERY mutating file-system op of the "
                "fault-free log x every applicable fault kind (crash before; crash after create = empty file; crash mid-"
                "write = first half on disk, or all but the last 1 / 8 bytes; error on open (also of every file READ while memoizing)/mkdir/unlink; ENOSPC on first write leaving a truncated file); "
                "thorough adds every second fault during recovery. A case is distinct/non-trivial by its (scenario, fault "
                "kind, per-call outcome and body-count vector) observation." % len(SCENARIOS))
    ctx.assumptions += ["process death and reported I/O errors only; no post-crash reordering of completed writes",
                        "faults are injected at the operations the library issues through open/os/shutil (audit cross-check "
                        "fails the run if any mutation under the root bypasses the layer)"]
    caches = (0, 65536)
    tasks = []
    logs = {}
    for si, scn in enumerate(SCENARIOS):
        for cache in caches:
            l1 = record(scn, cache)
            l2 = record(scn, cache)
            ctx.selfcheck("fault-free op log of %s (cache=%s) is reproducible" % (scn[0], cache),
                          [(k, _norm(r)) for k, r in l1] == [(k, _norm(r)) for k, r in l2])
            logs[(si, cache)] = l1
            for idx, entry in enumerate(l1):
                kinds = _kinds(entry)
                for kind in kinds:
                    tasks.append((si, cache, idx, kind, None, op_class(entry)))
    ctx.extra["oplog_lengths"] = {"%s/cache=%d" % (SCENARIOS[si][0], c): len(l) for (si, c), l in logs.items()}
    ctx.sample({"scenario": SCENARIOS[0][0], "oplog": [list(e) for e in logs[(0, 0)]]})
    if ctx.seed:
        import random

        random.Random(ctx.seed).shuffle(tasks)
    res = pmap(fault_case, tasks, chunksize=4)
    ctx.merge(res)
    ctx.extra["single_fault_cases"] = len(tasks)
    if thorough:
        firsts = [(t[0], t[1], t[2], t[3]) for t in tasks if t[1] == 0 or t[0] in (0, 1)]
    else:
        # quick: a second fault during recovery only after the first fault left a damaged LINK file (string scenario, no cache)
        firsts = [(t[0], t[1], t[2], t[3]) for t in tasks if t[0] == 0 and t[1] == 0 and t[5].endswith("-link") and t[3].startswith("crash_") and t[3] != "crash_before"]
    if firsts:
        p2 = pmap(_p2task, firsts, chunksize=4)
        t2 = []
        for (si, cache, idx, kind), log in p2:
            for j, entry in enumerate(log):
                kinds = _kinds(entry)
                for k2 in kinds:
                    t2.append((si, cache, idx, kind, (j, k2), op_class(logs[(si, cache)][idx])))
        res2 = pmap(fault_case, t2, chunksize=4)
        ctx.merge(res2)
        ctx.extra["double_fault_cases"] = len(t2)
    ctx.sample({"case": list(tasks[len(tasks) // 2][:4]), "op": tasks[len(tasks) // 2][5]})
    ctx.states = ctx.evaluations
    ctx.count()


def _kinds(entry):
    return KINDS_OPEN if entry[0] == "open-w" else (KINDS_READ if entry[0] == "open-r" else KINDS_OTHER)


def _norm(rel):
    import re

    return re.sub(r"[0-9a-f]{8}-[0-9a-f]{4}-[0-9a-f]{4}-[0-9a-f]{4}-[0-9a-f]{12}", "U", rel)


def replay(ctx, art):
    a = art["artefact"]
    sec = tuple(a["second"]) if a.get("second") else None
    r = fault_case((a["scenario"], a["cache"], a["idx"], a["kind"], sec, a.get("op", "?")))
    for v in r["violations"]:
        print(v[0], "\n", v[1])
    print("REPLAY property=C08 result=%s" % (bool(r["violations"]),))
    return 1 if r["violations"] else 0

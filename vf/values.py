"""E5 - small value alphabets, enumerated completely and ordered simplest-first."""
import datetime
import math

UTC = datetime.timezone.utc
P0530 = datetime.timezone(datetime.timedelta(hours=5, minutes=30))
M0300 = datetime.timezone(datetime.timedelta(hours=-3))


def arg_atoms():
    import collections

    import pandas as pd

    return _plain_atoms() + [
        # legal values whose normal form differs from themselves: a datetime subclass, a dict subclass
        ("pd-timestamp", pd.Timestamp("2020-02-29 13:05:07")),
        ("ordered-dict", collections.OrderedDict([("y", "a"), ("x", 1)])),
    ]


def _plain_atoms():
    return [
        ("None", None), ("True", True), ("False", False), ("0", 0), ("1", 1), ("-1", -1), ("2**63", 2 ** 63),
        ("1.0", 1.0), ("0.5", 0.5), ("-0.0", -0.0), ("0.0", 0.0), ("nan", float("nan")), ("inf", float("inf")),
        ("''", ""), ("'a'", "a"), ("'é'", "é"), ("'1'", "1"), ("'True'", "True"),
        ("date", datetime.date(2020, 2, 29)),
        ("dt-naive", datetime.datetime(2020, 2, 29, 13, 5, 7)),
        ("dt-naive-us", datetime.datetime(2020, 2, 29, 13, 5, 7, 120)),
        ("dt-midnight", datetime.datetime(2020, 2, 29)),
        ("dt-utc", datetime.datetime(2020, 2, 29, 13, 5, 7, tzinfo=UTC)),
        ("dt+0530", datetime.datetime(2020, 2, 29, 18, 35, 7, tzinfo=P0530)),
        ("dt-0300", datetime.datetime(2020, 2, 29, 10, 5, 7, tzinfo=M0300)),
        ("date-y1", datetime.date(1, 1, 1)), ("dt-y9999", datetime.datetime(9999, 12, 31, 23, 59, 59, 999999)),
    ]


def containers(atoms, depth=1):
    """Lists and string-keyed dicts over atoms (two insertion orders for dicts)."""
    out = [("[]", []), ("{}", {})]
    small = atoms[:]
    for n, v in small:
        out.append(("[%s]" % n, [v]))
        out.append(("{k:%s}" % n, {"k": v}))
    a, b = small[4], small[14]
    out.append(("[1,'a']", [a[1], b[1]]))
    out.append(("['a',1]", [b[1], a[1]]))
    out.append(("{x:1,y:'a'}", {"x": a[1], "y": b[1]}))
    out.append(("{y:'a',x:1}", {"y": b[1], "x": a[1]}))
    out.append(("{é:1,'total cost':2,total:3}", {"é": 1, "total cost": 2, "total": 3, 'a"b': 4, "a#b": 5, "z": 6}))
    # user dictionaries whose keys look like the wire encoding of a typed value
    out.append(("{type:number,value:42}", {"type": "number", "value": 42}))
    out.append(("{type:csv,value:[1]}", {"type": "csv", "value": [1]}))
    out.append(("[{type:null,value:0}]", [{"type": "null", "value": 0}]))
    if depth >= 2:
        for n, v in list(out):
            out.append(("[%s]" % n, [v]))
            out.append(("{k:%s}" % n, {"k": v, "j": [v]}))
    return out


def deep_eq(a, b):
    """Type-exact, NaN-aware structural equality."""
    if type(a) is not type(b):
        return False
    if isinstance(a, float):
        return (math.isnan(a) and math.isnan(b)) or (a == b and math.copysign(1, a) == math.copysign(1, b))
    if isinstance(a, (list, tuple)):
        return len(a) == len(b) and all(deep_eq(x, y) for x, y in zip(a, b))
    if isinstance(a, dict):
        return set(a) == set(b) and all(deep_eq(a[k], b[k]) for k in a)
    if isinstance(a, datetime.datetime):
        return a == b and a.utcoffset() == b.utcoffset()
    return a == b

"""Plan-interpreting memento functions for provenance (C10) and context-argument (C16) checks.

Every node n0..n3 is an automatically versioned memento function whose body interprets a *plan*
(a nested list passed as argument): which other nodes to call, how, and which resources to take.
All node names appear statically in every body, so every node is in every node's dependency
closure and the interpreted (dynamic) calls are allowed.

plan = list of actions:
  ["c", j, subplan]            call n_j(subplan)
  ["cc", j, subplan]           call it twice
  ["ci", j, subplan]           call n_j.ignore_result()(subplan)
  ["b", j, [p1, p2, ...]]      n_j.call_batch([{plan: p1}, ...], raise_first_exception=False)
  ["x", j, subplan]            call n_j(subplan) and swallow any exception
  ["r", url]                   obtain a resource handle
  ["raise"]                    raise ValueError
  ["raise_nm"]                 raise an exception marked as not-to-be-memoized
  ["ctx", j, subplan, ctx]     call n_j.with_context_args(ctx)(subplan)      (ctx = dict or None)
  ["pfc", j, subplan]          call n_j.with_prevent_further_calls(True)(subplan), swallow RuntimeError of nested calls
"""
import sys

import twosigma.memento as m
from twosigma.memento.exception import NonMemoizedException
from twosigma.memento.resource import ResourceHandle
from twosigma.memento.resource_function import resource_function


class Transient(NonMemoizedException):
    pass


@resource_function(resource_type="vf")
def vf_resource(url):
    return ResourceHandle("vf", url, "v1")


def _interp(me, plan, kwargs):
    sys.audit("vf.body", me, {"plan": plan, "kwargs": sorted(kwargs)})
    nodes = {0: n0, 1: n1, 2: n2, 3: n3, 4: ne}
    out = [me]
    for act in plan:
        k = act[0]
        if k == "c":
            out.append(nodes[act[1]](act[2]))
        elif k == "ci":  # the body is not interested in the value of the sub-call
            out.append(nodes[act[1]].ignore_result()(act[2]))
        elif k == "cc":
            out.append(nodes[act[1]](act[2]))
            out.append(nodes[act[1]](act[2]))
        elif k == "b":
            rs = nodes[act[1]].call_batch([{"plan": p} for p in act[2]], raise_first_exception=False)
            out.append([r if not isinstance(r, Exception) else "exc:" + type(r).__name__ for r in rs])
        elif k == "x":
            try:
                out.append(nodes[act[1]](act[2]))
            except Exception as e:
                out.append("exc:" + type(e).__name__)
        elif k == "r":
            vf_resource(act[1])
            out.append("res:" + act[1])
        elif k == "raise":
            raise ValueError("boom in %s" % me)
        elif k == "raise_nm":
            raise Transient("transient failure in %s" % me)
        elif k == "ctx":
            if act[3] is not None:
                f = nodes[act[1]].with_context_args({k2: (n3 if v == "@fn" else v) for k2, v in act[3].items()})
            else:
                f = nodes[act[1]]
            out.append(f(act[2]))
        elif k == "pfc":
            try:
                out.append(nodes[act[1]].with_prevent_further_calls(True)(act[2]))
            except Exception as e:
                out.append("exc:" + type(e).__name__)
    return out


@m.memento_function(cluster="vfc")
def n0(plan, **kwargs):
    _static = (n1, n2, n3)
    return _interp("n0", plan, kwargs)


@m.memento_function(cluster="vfc")
def n1(plan, **kwargs):
    _static = (n0, n2, n3)
    return _interp("n1", plan, kwargs)


@m.memento_function(cluster="vfc")
def n2(plan, **kwargs):
    _static = (n0, n1, n3)
    return _interp("n2", plan, kwargs)


@m.memento_function(cluster="vfc")
def n3(plan, **kwargs):
    _static = (n0, n1, n2)
    return _interp("n3", plan, kwargs)


@m.memento_function(cluster="vfc", version="1")
def ne(plan, **kwargs):
    """The same interpreter under a declared version (its nested calls are not validated against a closure)."""
    return _interp("ne", plan, kwargs)


"""Long-lived interpreter started with a chosen PYTHONHASHSEED (C03). Reads a JSON task list,
forks one child per task (so that every task imports its program into a fresh module table with
the SAME hash seed), writes a JSON result list.

task = {"root": dir containing package vfp, "query_order": [names], "store": dir or null,
        "calls": [[fname, args]] or null}
"""
import json
import os
import sys


def _task(t):
    import importlib

    from vf import audit, farm

    audit.install()
    farm.set_env(t.get("store") or os.path.join(t["root"], "nostore"))
    sys.path.insert(0, t["root"])
    importlib.invalidate_caches()
    if t.get("import_b_first"):
        importlib.import_module("vfp.b")
    a = importlib.import_module("vfp.a")
    versions = {}
    for n in t["query_order"]:
        f = getattr(a, n)
        try:
            versions[n] = f.version()
        except Exception as e:
            versions[n] = "EXC:%s" % type(e).__name__
    if t.get("inproc_change"):
        # a long-lived modifier clone next to the original; a tracked variable changes in the running process; both are
        # asked again, in the given order
        var, val, order = t["inproc_change"]
        for n in t["query_order"]:
            f = getattr(a, n)
            c = f.partial()
            c.version()
            setattr(a, var, val)
            pair = [("orig", f), ("clone", c)] if order == "orig-first" else [("clone", c), ("orig", f)]
            for label, o in pair:
                try:
                    versions["%s/%s" % (n, label)] = o.version()
                except Exception as e:
                    versions["%s/%s" % (n, label)] = "EXC:%s" % type(e).__name__
    res = None
    if t.get("calls"):
        res = farm.do_calls(a, [(c[0], tuple(c[1]), {}, None) for c in t["calls"]], False)
    probe = list(frozenset(["pa", "qb", "rc", "sd", "te"]))
    return {"versions": versions, "results": res, "set_order": probe}


def main():
    import logging

    logging.disable(logging.CRITICAL)
    import twosigma.memento  # noqa  (warm: children fork from here)
    from vf import farm

    tasks = json.load(open(sys.argv[1]))
    out = []
    for t in tasks:
        try:
            out.append(farm.fork_call(_task, t))
        except Exception as e:
            out.append({"error": str(e)[:2000]})
    json.dump(out, open(sys.argv[2], "w"))


if __name__ == "__main__":
    main()

"""C17 - partitions round-trip key by key and merge as an overlay of their parents.

Bounded-exhaustive enumeration of merge chains of length 0..k: own key sets per level x parent
provenance per link {computed in the nested call, read back from disk, read back from the memory
cache} x staging kind {in-memory, on-disk} x backends; oracle: dictionary overlay (own keys win,
parent-only keys remain) for the object returned by the first call and for the object read back
through a fresh backend; each key of the read-back partition loads on its own.
"""
import itertools
import os

from ..core import scratch_dir, rm, pmap
from .. import audit
from . import c09

preimport = c09.preimport  # the concurrent part runs under the controlled scheduler (vf/sched.py)

KEYSETS = [[], ["a"], ["a", "b"], ["b", "c"], ["a", "b", "c"]]


def mk(kind, root):
    from twosigma.memento.storage_filesystem import FilesystemStorageBackend
    from twosigma.memento.storage_memory import MemoryStorageBackend

    if kind == "mem":
        return MemoryStorageBackend()
    return FilesystemStorageBackend(path=root, memory_cache_mb=1 if kind == "fsc" else None)


def use(b, top):
    import twosigma.memento as m

    m.Environment.set(m.Environment(name="e", base_dir=top, repos=[m.ConfigurationRepository(name="r", clusters={"vfc": m.FunctionCluster(name="vfc", storage=b)})]))


def veq(a, b):
    import pandas as pd
    from twosigma.memento.partition import Partition

    if isinstance(a, Partition) or isinstance(b, Partition):
        if not (isinstance(a, Partition) and isinstance(b, Partition)):
            return False
        ka, kb = sorted(a.list_keys()), sorted(b.list_keys())
        return ka == kb and all(veq(a.get(k), b.get(k)) for k in ka)

    if isinstance(a, pd.DataFrame) or isinstance(b, pd.DataFrame):
        return isinstance(a, pd.DataFrame) and isinstance(b, pd.DataFrame) and a.equals(b)
    return type(a) is type(b) and a == b


def check_partition(p, want, label):
    from twosigma.memento.partition import Partition

    if not isinstance(p, Partition):
        return ("%s-not-a-partition" % label, "%s: got %r" % (label, type(p)))
    try:
        keys = list(p.list_keys())
    except Exception as e:
        return ("%s-list-keys-raised" % label, "%s: list_keys raised %r" % (label, e))
    if sorted(keys) != sorted(want):
        missing = sorted(set(want) - set(keys))
        return ("%s-keys-%s" % (label, "missing" if missing else "extra"), "%s: keys %s, overlay has %s" % (label, sorted(keys), sorted(want)))
    for k in want:
        try:
            v = p.get(k)
        except Exception as e:
            return ("%s-get-raised" % label, "%s: get(%r) raised %r" % (label, k, e))
        try:
            same = veq(v, want[k])
        except Exception as e:
            return ("%s-get-raised" % label, "%s: reading the value of %r raised %r" % (label, k, e))
        if not same:
            return ("%s-value" % label, "%s: get(%r) = %.40r, overlay gives %.40r" % (label, k, v, want[k]))
    return None


def case(args):
    from ..fixtures import c17fx as fx

    kind, keysets, kinds, prov = args[:4]
    override = len(args) > 4 and args[4] is True
    peek = len(args) > 4 and args[4] == "peek"
    reassign = len(args) > 4 and args[4] == "reassign"
    L = len(keysets) - 1
    specs = [{"keys": ks, "kind": kd} for ks, kd in zip(keysets, kinds)]
    if override:
        for sp in specs:
            sp["override"] = True
    if peek:
        for sp in specs:
            sp["peek"] = True
    if reassign:
        for sp in specs:
            sp["reassign"] = True
    unstored = [j for j in range(L) if prov[j] == "unstored"]
    for j in unstored:
        specs[j]["unstored"] = True
    top = scratch_dir("c17")
    out = {"evaluations": 1, "states": 1, "transitions": L + 2, "traces": 1, "violations": [], "outcomes": []}
    try:
        root = os.path.join(top, "s")
        b = mk(kind, root)
        use(b, top)
        want = {}
        for lvl, ks in enumerate(keysets):
            for k in ks:
                want[k] = fx.value(lvl, k)
        bad = None
        try:
            for j in range(L):
                if prov[j] in ("fresh", "unstored"):
                    continue
                fx.part(j, specs)
                if prov[j] == "disk" and kind != "mem":
                    b = mk(kind, root)
                    use(b, top)
            audit.bodies_reset()
            first = fx.part(L, specs)
        except Exception as e:
            import traceback

            first = None
            bad = ("first-call-raised", "first call raised %r\n%s" % (e, traceback.format_exc(limit=4)[-400:]))
        if bad is None:
            bad = check_partition(first, want, "returned")

        def lower_levels(label):
            # every partition lower in the chain must still be exactly the overlay of ITS levels
            for j in range(L):
                if j in unstored:
                    continue
                wj = {}
                for lvl, ks in enumerate(keysets[:j + 1]):
                    for k in ks:
                        wj[k] = fx.value(lvl, k)
                try:
                    pj = fx.part(j, specs)
                except Exception as e:
                    return ("%s-parent-raised" % label, "%s: re-reading level %d raised %r" % (label, j, e))
                r = check_partition(pj, wj, "%s-parent" % label)
                if r:
                    return (r[0], "level %d of the chain after the child was stored: %s" % (j, r[1]))
            return None

        if bad is None:
            bad = lower_levels("same-backend")
        if bad is None:
            b2 = mk(kind, root) if kind != "mem" else b
            use(b2, top)
            audit.bodies_reset()
            try:
                again = fx.part(L, specs)
            except Exception as e:
                again = None
                bad = ("second-call-raised", "second call raised %r" % (e,))
            if bad is None and audit.bodies() and not unstored:
                bad = ("not-stored", "second call ran bodies %s: the merged partition was not stored" % [x[1] for x in audit.bodies()])
            if bad is None:
                bad = check_partition(again, want, "read-back")
            if bad is None:
                bad = lower_levels("fresh-backend")
            if bad is None and unstored:
                # a parent that was never serialized: whatever the library stores or refuses to store, a third call
                # (same backend, so possibly served) still has to give the overlay
                try:
                    bad = check_partition(fx.part(L, specs), want, "third-call")
                except Exception as e:
                    bad = ("third-call-raised", "third call raised %r" % (e,))
            if bad is None and kind != "mem" and not unstored:
                # each key loadable on its own: get(k) opens at most the index-free blob of that key
                b3 = mk("fs", root)
                use(b3, top)
                p3 = fx.part(L, specs)
                for k in want:
                    with audit.watch(root) as w:
                        p3.get(k)
                    opened = [e for e in w.reads if e[0] == "open-r" and "/c/" in e[1] and not e[1].endswith(".link")]
                    if len(opened) > 1:
                        bad = ("key-load-not-independent", "get(%r) opened %d data objects: %s" % (k, len(opened), opened[:3]))
                        break
        if bad:
            sig = "%s|chain:%d|prov:%s|staging:%s|%s%s" % (kind, L, "+".join(sorted(set(prov))) or "-", "+".join(sorted(set(kinds))), bad[0],
                                                          "|shared-key-override" if override else "|keys-listed-before-parent-declared" if peek else "|first-key-assigned-twice" if reassign else "")
            out["violations"].append((sig, bad[1] + "\nbackend=%s key sets=%s staging=%s parent provenance=%s shared key override=%s" % (kind, keysets, kinds, prov, bool(override)),
                                      {"case": [kind, keysets, kinds, prov, "peek" if peek else "reassign" if reassign else bool(override)]}))
        out["outcomes"].append("%s|%s|%s|%s" % (kind, keysets, kinds, prov))
    finally:
        rm(top)
    return out


def through_case(args):
    """A function returns, unchanged, the partition a memoized call gave it (computed just now, served by the cache, or read
    from the store): what it returned and what reads back must both be the overlay of the whole chain."""
    from ..fixtures import c17fx as fx

    kind, keysets, kinds, prov_top = args
    L = len(keysets) - 1
    specs = [{"keys": ks, "kind": kd} for ks, kd in zip(keysets, kinds)]
    top = scratch_dir("c17t")
    out = {"evaluations": 1, "states": 1, "transitions": 3, "traces": 1, "violations": [], "outcomes": ["through|%s|%s|%s|%s" % (kind, keysets, kinds, prov_top)]}
    try:
        root = os.path.join(top, "s")
        use(mk(kind, root), top)
        want = {}
        for lvl, ks in enumerate(keysets):
            for k in ks:
                want[k] = fx.value(lvl, k)
        bad = None
        try:
            if prov_top != "fresh":
                fx.part(L, specs)
                if prov_top == "disk" and kind != "mem":
                    use(mk(kind, root), top)
            bad = check_partition(fx.through(L, specs), want, "returned")
            if bad is None:
                if kind != "mem":
                    use(mk(kind, root), top)
                audit.bodies_reset()
                again = fx.through(L, specs)
                if [b for b in audit.bodies() if b[0] == "through"]:
                    bad = ("not-stored", "second call ran the body again: the handed-on partition was not stored")
                else:
                    bad = check_partition(again, want, "read-back")
        except Exception as e:
            import traceback

            bad = ("raised", "raised %r\n%s" % (e, traceback.format_exc(limit=4)[-300:]))
        if bad:
            out["violations"].append(("%s|handed-on-partition|chain:%d|inner:%s|%s" % (kind, L, prov_top, bad[0]),
                                      bad[1] + "\nbackend=%s key sets=%s staging=%s inner call: %s" % (kind, keysets, kinds, prov_top), {"through": [kind, keysets, kinds, prov_top]}))
    finally:
        rm(top)
    return out


def extend_case(args):
    from ..fixtures import c17fx as fx

    kind, keys, pre = args
    specs = [{"keys": keys, "kind": "disk"}]
    top = scratch_dir("c17e")
    out = {"evaluations": 1, "states": 1, "transitions": 3, "traces": 1, "violations": [], "outcomes": ["extend|%s|%s|%s" % (kind, keys, pre)]}
    try:
        root = os.path.join(top, "s")
        use(mk(kind, root), top)
        want = {k: fx.value(0, k) for k in keys}
        want.update({"b": "replaced-b", "z": ["added", 1]})
        bad = None
        try:
            if pre:
                fx.part(0, specs)  # the extended partition then starts from the object the cache / the store returns
            bad = check_partition(fx.extend(specs), want, "returned")
            if bad is None:
                use(mk(kind, root) if kind != "mem" else mk(kind, root), top) if kind != "mem" else None
                audit.bodies_reset()
                again = fx.extend(specs)
                if kind != "mem" and [b for b in audit.bodies() if b[0] == "extend"]:
                    bad = ("not-stored", "second call through a fresh backend ran the body again")
                else:
                    bad = check_partition(again, want, "read-back")
        except Exception as e:
            bad = ("raised", "raised %r" % (e,))
        if bad:
            out["violations"].append(("%s|extend-partition-of-a-call|premem:%s|%s" % (kind, pre, bad[0]), bad[1] + "\nbackend=%s keys=%s level 0 memoized before: %s" % (kind, keys, pre),
                                      {"extend": [kind, keys, pre]}))
    finally:
        rm(top)
    return out


def run(ctx):
    thorough = ctx.tier == "thorough"
    maxL = 3 if thorough else 2
    ctx.rule = ("merge chains of length 0..%d; own key set per level from %s (values by key and level: int, str, list / DataFrame); "
                "parent provenance per link in {computed in the nested call, memoized and read back from disk after reopening, "
                "memoized and served by the memory cache, built in memory and never serialized (lowest levels)}; staging kinds all in-memory / all on-disk / alternating / in-memory over a defaultdict; chains whose levels are all stored under one shared key override; chains over keys that hold equal content (two keys of one level, the same keys at several levels, two None values); backends "
                "filesystem, filesystem+cache, memory. distinct = (backend, key sets, staging, provenance)." % (maxL, KEYSETS))
    tasks = []
    for L in range(maxL + 1):
        for keysets in itertools.product(KEYSETS, repeat=L + 1):
            if L == 3 and not thorough:
                continue
            if L == 3 and (len(set(map(tuple, keysets))) < 3):
                continue
            for kinds in sorted({("mem",) * (L + 1), ("disk",) * (L + 1), tuple("mem" if i % 2 else "disk" for i in range(L + 1)),
                                 tuple("disk" if i % 2 else "mem" for i in range(L + 1)), ("ddict",) * (L + 1),
                                 tuple("ddict" if i == L else "mem" for i in range(L + 1))}):
                for kind in ("fs", "fsc", "mem"):
                    provs = {"fs": ("fresh", "disk"), "fsc": ("fresh", "disk", "cache"), "mem": ("fresh", "cache")}[kind]
                    for prov in itertools.product(provs, repeat=L):
                        if L == 3 and len(set(prov)) == 1 and prov[0] != "fresh" and keysets[0] == []:
                            continue
                        tasks.append((kind, [list(k) for k in keysets], list(kinds), list(prov)))
                    # the lowest u levels built in memory and never serialized (the library may refuse to store the
                    # child; values must be right all the same, on every call)
                    for u in range(1, L + 1):
                        tasks.append((kind, [list(k) for k in keysets], list(kinds), ["unstored"] * u + ["fresh"] * (L - u)))
                    # every level of the chain stored under one shared key override
                    if L >= 1 and kinds[0] in ("mem", "disk") and len(set(kinds)) == 1:
                        for prov in itertools.product(provs, repeat=L):
                            tasks.append((kind, [list(k) for k in keysets], list(kinds), list(prov), True))
    # every level lists the keys it has staged before it declares its parent
    for L in (1, 2):
        for keysets in itertools.product(KEYSETS[1:4], repeat=L + 1):
            for kinds in (("mem",) * (L + 1), ("disk",) * (L + 1), tuple("mem" if i % 2 else "disk" for i in range(L + 1))):
                for kind in ("fs", "fsc", "mem"):
                    if L == 2 and not thorough and kind != "fsc":
                        continue
                    provs = {"fs": ("fresh", "disk"), "fsc": ("fresh", "disk", "cache"), "mem": ("fresh", "cache")}[kind]
                    for prov in itertools.product(provs, repeat=L):
                        tasks.append((kind, [list(k) for k in keysets], list(kinds), list(prov), "peek"))
    # on-disk staging where the first key is assigned twice (keys with equal content share one staged object)
    for L in (0, 1):
        for keysets in itertools.product([["e", "f"], ["g", "h"], ["a", "e"], ["a"]], repeat=L + 1):
            for kind in ("fs", "fsc", "mem"):
                provs = {"fs": ("fresh", "disk"), "fsc": ("fresh", "disk", "cache"), "mem": ("fresh", "cache")}[kind]
                for prov in itertools.product(provs, repeat=L):
                    tasks.append((kind, [list(k) for k in keysets], ["disk"] * (L + 1), list(prov), "reassign"))
    # a partition key containing '#', every level under one shared key override (value objects are named <override>/<key>)
    for L in (0, 1):
        for keysets in itertools.product([["a", "k#1"], ["k#1"], ["b"]], repeat=L + 1):
            for kinds in (("mem",) * (L + 1), ("disk",) * (L + 1)):
                for kind in ("fs", "fsc"):
                    for prov in itertools.product({"fs": ("fresh", "disk"), "fsc": ("fresh", "disk", "cache")}[kind], repeat=L):
                        tasks.append((kind, [list(k) for k in keysets], list(kinds), list(prov), True))
                        tasks.append((kind, [list(k) for k in keysets], list(kinds), list(prov)))
    # keys holding EQUAL content (one stored object behind several entries of one level, and of several levels)
    dup = [["e", "f"], ["g", "h"], ["a"], ["e"], []]
    for L in (1, 2):
        for keysets in itertools.product(dup, repeat=L + 1):
            if not any(len(k) == 2 for k in keysets):
                continue
            for kinds in (("mem",) * (L + 1), ("disk",) * (L + 1)):
                for kind in ("fs", "fsc", "mem"):
                    if L == 2 and not thorough and (kind == "mem" or kinds[0] == "disk"):
                        continue
                    provs = {"fs": ("fresh", "disk"), "fsc": ("fresh", "disk", "cache"), "mem": ("fresh", "cache")}[kind]
                    for prov in itertools.product(provs, repeat=L):
                        tasks.append((kind, [list(k) for k in keysets], list(kinds), list(prov)))
    if ctx.seed:
        import random

        random.Random(ctx.seed).shuffle(tasks)
    a = case(tasks[len(tasks) // 2])
    b = case(tasks[len(tasks) // 2])
    ctx.selfcheck("one case gives identical observations twice", a["violations"] == b["violations"])
    ctx.merge(pmap(case, tasks, chunksize=8))
    # (with a cache-less store a memoized level 0 comes back as a read-only stored partition: nothing to extend)
    tt = []
    for L in (0, 1, 2):
        for keysets in itertools.product(KEYSETS[1:4], repeat=L + 1):
            for kinds in (("mem",) * (L + 1), ("disk",) * (L + 1)):
                for kind in ("fs", "fsc", "mem"):
                    for prov_top in {"fs": ("fresh", "disk"), "fsc": ("fresh", "disk", "cache"), "mem": ("fresh", "cache")}[kind]:
                        tt.append((kind, [list(k) for k in keysets], list(kinds), prov_top))
    ctx.merge(pmap(through_case, tt, chunksize=4))
    ctx.extra["handed_on_cases"] = len(tt)
    et = [(kind, ks, pre) for kind in ("fs", "fsc", "mem") for ks in KEYSETS for pre in (False, True) if not (pre and kind == "fs")]
    ctx.merge(pmap(extend_case, et, chunksize=2))
    ctx.rule += " Plus: a function handing on, unchanged, the partition of a memoized call (chains 0..2, inner call fresh / from disk / from the cache)."
    ctx.rule += " Plus: a function that takes the on-disk partition returned by a memoized call, replaces an entry, adds one and returns it."
    # two threads storing partitions at the same time: each must read back with its own keys and values
    cs = [("fs|cold|two-partitions", "fs", "cold", [[("pa", 1)], [("pb", 1)]]),
          ("fs+cache-one|cold|two-partitions", "fs+cache-one", "cold", [[("pa", 1)], [("pb", 1)]])]
    if thorough:
        cs.append(("fs|cold|same-partition-twice", "fs", "cold", [[("pa", 1)], [("pa", 1)]]))
    c09.concurrent_part(ctx, cs, "readback", "two threads memoizing partition results at the same time, then everything read back through a "
                        "fresh backend", bound=2 if thorough else 1, gran="full" if not thorough else "runner")
    ctx.extra["cases"] = len(tasks)
    ctx.sample({"case": list(tasks[len(tasks) // 2])})
    ctx.sample({"case": list(tasks[-1])})


def replay(ctx, art):
    if "scn" in art["artefact"]:
        return c09.replay_concurrent("C17", art)
    if "through" in art["artefact"]:
        r = through_case(tuple(art["artefact"]["through"]))
        for v in r["violations"]:
            print(v[0], "\n", v[1])
        print("REPLAY property=C17 result=%s" % bool(r["violations"]))
        return 1 if r["violations"] else 0
    if "extend" in art["artefact"]:
        r = extend_case(tuple(art["artefact"]["extend"]))
        for v in r["violations"]:
            print(v[0], "\n", v[1])
        print("REPLAY property=C17 result=%s" % bool(r["violations"]))
        return 1 if r["violations"] else 0
    c = art["artefact"]["case"]
    r = case(tuple(c))
    for v in r["violations"]:
        print(v[0], "\n", v[1])
    print("REPLAY property=C17 result=%s" % bool(r["violations"]))
    return 1 if r["violations"] else 0

"""E2 - program generator: small programs over memento functions, plain helpers, module
variables and class constants, rendered (a) as a real package using @memento_function and
(b) as a *plain rendering* with the decorators omitted - the un-memoized reference.

A program is a plain dict (JSON-able):

  {"funcs": [F...], "vars": {name: python-literal}, "classes": {cname: {attr: literal}},
   "late": [names defined after their users], "order": [definition order of funcs in module a]}

  F = {"name", "kind": "memento" | "explicit" | "plain", "version": str (explicit only),
       "module": "a" | "b" | "q" (q = module lib of a second package vfq) | "i" (the package's own __init__.py), "lit", "pos_default", "kw_default", "set_const": [str...],
       "tuple_const": [..], "lambda_const", "lambda_default", "inner_const", "inner_default",
       "comp_const", "reads": [dotted names], "calls": [{"target", "form", "arg"}],
       "cluster": None | str, "raises": bool}

Reference forms of a call edge: "bare" (name in the same module), "modattr" (b.NAME, callee
lives in module b), "alias" (module-level NAME_alias = NAME), "wrapper" (functools.wraps
decorator wrapper object), "hidden" (globals()[...] dynamic call - invisible to the static
analysis), "nested" (call nested inside a dereferenced call: str(NAME(1)).strip()), "comp" / "lambda" / "partial" / "cond" / "default" /
"innerdef" (inside a comprehension, a lambda body, functools.partial, one arm of a conditional, a default value of a nested
function, a nested def),
"arg" (callee passed to the caller as an argument, see C14).
"""
import copy
import json

FEATURES = ("lit", "pos_default", "kw_default", "set_const", "tuple_const", "lambda_const", "lambda_default",
            "inner_const", "inner_default", "comp_const", "set_tuple_const", "set_bytes_const", "genexp_str", "genexp_after")


def mkfunc(name, kind="memento", module="a", calls=(), reads=(), version=None, rich=True, cluster=None):
    f = {"name": name, "kind": kind, "module": module, "version": version, "cluster": cluster,
         "lit": 7, "pos_default": 10, "kw_default": 3, "reads": list(reads),
         "calls": [dict(c) for c in calls], "raises": False}
    if rich:
        f.update({"set_const": ["pa", "qb", "rc", "sd", "te"], "tuple_const": [1, 2], "lambda_const": 100,
                  "lambda_default": 5, "inner_const": 1000, "inner_default": 6, "comp_const": 2,
                  # set literals without a direct string element: tuples of strings, bytes (membership test = frozenset constant)
                  "set_tuple_const": [["eur", "usd"], ["gbp", "usd"], ["chf", "eur"], ["jpy", "usd"], ["eur", "jpy"]],
                  "set_bytes_const": ["bin", "hex", "oct", "dec", "b64"],
                  # a generator expression (its own code object) whose FIRST constant is a string literal, and one where it is not
                  "genexp_str": "item-", "genexp_after": "-end"})
    return f


def call(target, form="bare", arg=1):
    return {"target": target, "form": form, "arg": arg}


def _decor(f, plain):
    if plain or f["kind"] == "plain":
        return ""
    args = []
    if f.get("cluster"):
        args.append("cluster=%r" % f["cluster"])
    if f["kind"] == "explicit":
        args.append("version=%r" % f["version"])
    if f.get("deps"):
        args.append("dependencies=[%s]" % ", ".join(f["deps"]))
    if f.get("no_auto"):
        args.append("auto_dependencies=False")
    return "@m.memento_function(%s)\n" % ", ".join(args) if args else "@m.memento_function\n"


def _call_expr(c, in_module, prog):
    t = c["target"]
    tf = next((x for x in prog["funcs"] if x["name"] == t), None)
    form = c["form"]
    a = repr(c.get("arg", 1))
    if form == "bare":
        return "%s(%s)" % (t, a)
    if form == "modattr":
        return "%s.%s(%s)" % ("b" if (tf is None or tf["module"] == "b") and in_module == "a" else "a", t, a)
    if form == "alias":
        return "%s_alias(%s)" % (t, a)
    if form == "wrapper":
        return "%s_w(%s)" % (t, a)
    if form == "pkgattr":  # callee lives in the package's own __init__.py, reached as pkg.NAME
        return "pkg.%s(%s)" % (t, a)
    if form == "xpkg":  # callee lives in module lib of the second package vfq, imported as qlib
        return "qlib.%s(%s)" % (t, a)
    if form == "hidden":
        return "globals()[%r](%s)" % (t, a)
    if form == "nested":
        return "str(%s(%s)).strip()" % (t, a)
    if form == "rec":  # guarded, with a smaller argument: lets reference cycles (also through itself) terminate
        return "(%s(x - 1) if isinstance(x, int) and 0 < x < 3 else 0)" % t
    if form == "comp":  # inside a comprehension
        return "[%s(%s) for _ in range(1)][0]" % (t, a)
    if form == "lambda":  # inside a lambda body
        return "(lambda: %s(%s))()" % (t, a)
    if form == "partial":  # through functools.partial
        return "functools.partial(%s, %s)()" % (t, a)
    if form == "cond":  # only in one arm of a conditional expression / boolean operator
        return "(%s(%s) if x is not None else None) or 0" % (t, a)
    if form == "default":  # bound as a default parameter value of a nested function
        return "(lambda fnd=%s: fnd(%s))()" % (t, a)
    if form == "innerdef":  # called from a nested def (rendered by render_func)
        return "_inner_%s(%s)" % (t, a)
    if form == "arg":
        return "fnarg(%s)" % a
    if form == "ppartial":  # through a positional partial application
        return "%s.partial(%s)()" % (t, a)
    if form == "passfn":  # call the target and hand it another function as an argument
        return "%s(%s, fnarg=%s)" % (t, a, c["fn"])
    raise ValueError(form)


def render_func(f, prog, plain):
    sig = "x=%r, *, k=%r" % (f["pos_default"], f["kw_default"])
    if f.get("no_pos_default"):  # the only default value is the keyword-only one
        sig = "x, *, k=%r" % (f["kw_default"],)
    if any(c["form"] == "arg" for c in f["calls"]):
        sig = "x=%r, fnarg=None, *, k=%r" % (f["pos_default"], f["kw_default"])
    if f.get("sentinel_default"):
        # defaults that cannot be encoded as argument values: a bare object() marker and an instance of a class without
        # a __repr__ of its own (their repr contains a memory address)
        sig += ", s1=_SENT, s2=_MARK"
    # "wrapped_def": a plain functools.wraps decorator sits on top of the memento decorator (the module attribute is the wrapper)
    out = [("@passthru\n" if f.get("wrapped_def") and not plain and f["kind"] != "plain" else "") + _decor(f, plain) + "def %s(%s):" % (f["name"], sig)]
    out.append("    sys.audit('vf.body', %r, {'x': x, 'k': k})" % f["name"])
    out.append("    acc = [[%r, %r, x, k]]" % (f["name"], f["lit"]))
    if "set_const" in f:
        out.append("    acc.append(sorted(s for s in {%s}))" % ", ".join(repr(s) for s in f["set_const"]))
        out.append("    acc.append(list((%s,)))" % ", ".join(repr(s) for s in f["tuple_const"]))
    if "set_tuple_const" in f:
        out.append("    acc.append([('eur', 'usd') in {%s}, sorted(t for t in {%s})])"
                   % (", ".join(repr(tuple(t)) for t in f["set_tuple_const"]), ", ".join(repr(tuple(t)) for t in f["set_tuple_const"])))
        out.append("    acc.append([b'bin' in {%s}, sorted(t.decode() for t in {%s})])"
                   % (", ".join(repr(t.encode()) for t in f["set_bytes_const"]), ", ".join(repr(t.encode()) for t in f["set_bytes_const"])))
    if "genexp_str" in f:
        out.append("    acc.append(','.join(%r + str(i) for i in range(2)))" % f["genexp_str"])
        out.append("    acc.append(','.join(str(i) + %r for i in range(2)))" % f["genexp_after"])
    if "set_const" in f:
        out.append("    acc.append((lambda z=%r: z + %r)())" % (f["lambda_default"], f["lambda_const"]))
        out.append("    acc.append([i * %r for i in range(2)])" % f["comp_const"])
        out.append("    def inner(w=%r):" % f["inner_default"])
        out.append("        return w + %r" % f["inner_const"])
        out.append("    acc.append(inner())")
    for r in f["reads"]:
        if r.endswith("?"):  # a name whose last attribute may not exist (yet)
            out.append("    try:")
            out.append("        acc.append(%s)" % r[:-1])
            out.append("    except AttributeError:")
            out.append("        acc.append('missing')")
        else:
            out.append("    acc.append(%s)" % r)
    for c in f["calls"]:
        if c["form"] == "innerdef":
            out.append("    def _inner_%s(v):" % c["target"])
            out.append("        return %s(v)" % c["target"])
        out.append("    acc.append(%s)" % _call_expr(c, f["module"], prog))
    if f.get("raises"):
        out.append("    raise ValueError('boom-%s' % (acc,))")
    out.append("    return acc")
    if f.get("as_closure"):
        # a plain helper made by a factory: every such helper of the module has the qualified name _mk.<locals>.helper
        body = "\n".join(out).replace("def %s(" % f["name"], "def helper(", 1)
        return "def _mk():\n%s\n    return helper\n\n\n%s = _mk()\n" % ("\n".join("    " + ln for ln in body.split("\n")), f["name"])
    return "\n".join(out) + "\n"


def render_var(name, val):
    return "%s = %r\n" % (name, val)


def render_class(cname, attrs):
    def lit(v):  # {"__ref__": name}: the attribute holds another module-level object (a class defined earlier)
        return v["__ref__"] if isinstance(v, dict) and "__ref__" in v else repr(v)

    return "class %s:\n%s" % (cname, "".join("    %s = %s\n" % (k, lit(v)) for k, v in attrs.items()) or "    pass\n")


HEADER = "import sys\nimport functools\n"
SENTINELS = "class _Marker:\n    pass\n\n\n_SENT = object()\n_MARK = _Marker()\n"
PASSTHRU = ("def passthru(f):\n    @functools.wraps(f)\n    def w(*a, **k):\n        return f(*a, **k)\n    return w\n")


def render(prog, plain=False, pkg="vfp"):
    """{relative file name: text} for the package. Module b holds the funcs with module == 'b' and is
    imported by a; everything else is in a."""
    files = {"__init__.py": ""}
    has_q = any(f["module"] == "q" for f in prog["funcs"])
    if has_q:
        files["../vfq/__init__.py"] = ""
    for mod in ("q", "i", "b", "a"):
        funcs = [f for f in prog["funcs"] if f["module"] == mod]
        if mod == "b" and not funcs and not prog.get("b_vars"):
            continue
        if mod in ("q", "i") and not funcs:
            continue
        parts = [HEADER]
        if not plain:
            parts.append("import twosigma.memento as m\n")
        if mod == "a" and has_q:
            parts.append("from vfq import lib as qlib\n")
        if mod == "a" and any(f["module"] == "i" for f in prog["funcs"]):
            parts.append("import %s as pkg\n" % pkg)
        if mod == "a" and any(f["module"] == "b" for f in prog["funcs"]) and not prog.get("b_broken"):
            parts.append("from . import b\n")
        if mod == "b" and prog.get("b_broken"):
            # module b still exists but can no longer be imported (something it imports is gone); nobody imports it
            parts.append("import vfp_helper_that_was_removed\n")
        parts.append(PASSTHRU)
        if any(f.get("sentinel_default") for f in funcs):
            parts.append(SENTINELS)
        if mod == "b":
            for k, v in prog.get("b_vars", {}).items():  # module b's own variables (may reuse names of module a)
                parts.append(render_var(k, v))
        if mod == "a":
            for k, v in prog.get("vars", {}).items():
                if k not in prog.get("late", []):
                    parts.append(render_var(k, v))
            for k, v in prog.get("classes", {}).items():
                parts.append(render_class(k, v))
            for k, v in prog.get("bindings", {}).items():  # name = other name (e.g. cfg = C1)
                parts.append("%s = %s\n" % (k, v))
        stmts = prog.get("stmts", {}) if mod == "a" else {}
        order = prog.get("order") or ([f["name"] for f in funcs] + list(stmts))
        order = [n for n in order if any(f["name"] == n for f in funcs) or n in stmts] + \
                [f["name"] for f in funcs if f["name"] not in order] + [k for k in stmts if k not in order]
        used_alias = {c["target"] for f in prog["funcs"] for c in f["calls"] if c["form"] == "alias"}
        used_wrap = {c["target"] for f in prog["funcs"] for c in f["calls"] if c["form"] == "wrapper"}
        tail = []
        for n in order:
            if n in stmts:
                parts.append(stmts[n] + "\n")
                continue
            f = next(x for x in funcs if x["name"] == n)
            parts.append("\n" + render_func(f, prog, plain))
            if n in used_alias:
                tail.append("%s_alias = %s\n" % (n, n))
            if n in used_wrap:
                tail.append("%s_w = passthru(%s)\n" % (n, n))
        parts += tail
        if mod == "a":
            for k in prog.get("late", []):
                if k in prog.get("vars", {}):
                    parts.append(render_var(k, prog["vars"][k]))
        files[{"q": "../vfq/lib.py", "i": "__init__.py"}.get(mod, "%s.py" % mod)] = "\n".join(parts)
    return files


def write_pkg(prog, root, plain=False, pkg="vfp"):
    import os

    d = os.path.join(root, pkg)
    os.makedirs(d, exist_ok=True)
    for name, text in render(prog, plain, pkg).items():
        os.makedirs(os.path.dirname(os.path.join(d, name)), exist_ok=True)
        with open(os.path.join(d, name), "w") as fh:
            fh.write(text)
    return d


# ---------------------------------------------------------------------------------------------
# edits
# ---------------------------------------------------------------------------------------------

def _bump(v):
    if isinstance(v, bool):
        return not v
    if isinstance(v, int):
        return v + 1
    if isinstance(v, float):
        return v + 0.5
    if isinstance(v, str):
        return v + "x"
    if isinstance(v, list):
        return v[:-1] + [_bump(v[-1])] if v else [1]
    if isinstance(v, dict):
        k = sorted(v)[-1] if v else "k"
        d = dict(v)
        d[k] = _bump(v.get(k, 0))
        return d
    if v is None:
        return 0
    raise ValueError(v)


def edit_sites(prog):
    """All (kind, where, feature) edit sites of a program."""
    sites = []
    for f in prog["funcs"]:
        for feat in FEATURES:
            if feat in f:
                sites.append(("feature", f["name"], feat))
        for i, c in enumerate(f["calls"]):
            sites.append(("retarget", f["name"], i))
    for v in prog.get("vars", {}):
        sites.append(("var", v, None))
    if prog.get("copy_edits"):  # give one variable the value another one holds
        for dst in prog["vars"]:
            for src in prog["vars"]:
                if dst != src and type(prog["vars"][dst]) is type(prog["vars"][src]) and prog["vars"][dst] != prog["vars"][src]:
                    sites.append(("varcopy", dst, src))
    for cn, attrs in prog.get("classes", {}).items():
        for a in attrs:
            sites.append(("classattr", cn, a))
    for b in prog.get("bindings", {}):
        sites.append(("rebind", b, None))
    for cn, attr in prog.get("addable_attrs", []):
        sites.append(("addattr", cn, attr))
    for v in prog.get("b_vars", {}):
        sites.append(("bvar", v, None))
    return sites


def _reach(prog, src):
    """Names (functions, variables, classes) reachable from function src through calls and reads."""
    seen = set()
    todo = [src]
    fmap = {f["name"]: f for f in prog["funcs"]}
    while todo:
        n = todo.pop()
        if n in seen:
            continue
        seen.add(n)
        f = fmap.get(n)
        if f is None:
            continue
        for c in f["calls"]:
            todo.append(c["target"])
        for r in f["reads"]:
            head = r.split(".")[0]
            todo.append(head)
            todo.append(prog.get("bindings", {}).get(head, head))
    return seen


def apply_edit(prog, site):
    """Return the edited program, or None if the site does not apply.  An explicit version is
    the author's assertion about the function AND everything it uses, so every explicit-version
    function that reaches the edited entity gets its version bumped in the same edit."""
    p = _apply_edit(prog, site)
    if p is None:
        return None
    target = site[1]
    for f in p["funcs"]:
        if f["kind"] == "explicit" and f["name"] != target and target in _reach(prog, f["name"]):
            f["version"] = f["version"] + "b"
    return p


def _apply_edit(prog, site):
    p = copy.deepcopy(prog)
    kind, where, what = site
    if kind == "feature":
        f = next(x for x in p["funcs"] if x["name"] == where)
        f[what] = _bump(f[what])
        if f["kind"] == "explicit":
            # an explicit version is the author's assertion: edit body and version together
            f["version"] = f["version"] + "b"
        return p
    if kind == "var":
        p["vars"][where] = _bump(p["vars"][where])
        return p
    if kind == "addattr":  # the class gets an attribute it did not have
        if what in p["classes"][where]:
            return None
        p["classes"][where][what] = 5
        return p
    if kind == "bvar":
        p["b_vars"][where] = _bump(p["b_vars"][where])
        return p
    if kind == "varcopy":
        if p["vars"][where] == p["vars"][what]:
            return None
        p["vars"][where] = copy.deepcopy(p["vars"][what])
        return p
    if kind == "classattr":
        p["classes"][where][what] = _bump(p["classes"][where][what])
        return p
    if kind == "rebind":
        alts = p.get("binding_alternatives", {}).get(where)
        if not alts:
            return None
        cur = p["bindings"][where]
        p["bindings"][where] = alts[(alts.index(cur) + 1) % len(alts)]
        return p
    if kind == "retarget":
        f = next(x for x in p["funcs"] if x["name"] == where)
        c = f["calls"][what]
        alts = p.get("retargets", {}).get(c["target"])
        if not alts:
            return None
        c["target"] = alts[0]
        if f["kind"] == "explicit":
            f["version"] = f["version"] + "b"
        return p
    raise ValueError(site)


def changed_entities(p0, p1):
    """What differs between two editions: lists of function names, variable names, class names, bindings."""
    f0 = {f["name"]: f for f in p0["funcs"]}
    f1 = {f["name"]: f for f in p1["funcs"]}
    funcs = [n for n in f1 if f0.get(n) != f1[n]]
    vars_ = [v for v in p1.get("vars", {}) if p0.get("vars", {}).get(v, "<none>") != p1["vars"][v]]
    classes = [c for c in p1.get("classes", {}) if p0.get("classes", {}).get(c) != p1["classes"][c]]
    binds = [b for b in p1.get("bindings", {}) if p0.get("bindings", {}).get(b) != p1["bindings"][b]]
    return funcs, vars_, classes, binds


def changed_bvars(p0, p1):
    return [v for v in p1.get("b_vars", {}) if p0.get("b_vars", {}).get(v, "<none>") != p1["b_vars"][v]]


def key(prog):
    return json.dumps(prog, sort_keys=True)

"""E4 - fault-injecting file-system layer.

Interposes, for paths under the chosen roots only, the calls through which the library mutates
the file system (open for writing, mkdir, unlink/remove, rename/replace, rmdir, rmtree,
truncate).  Every intercepted mutating call gets an index in the op log; a *plan* maps indices
to a fault: a crash (real process death via os._exit, after forcing exactly the chosen bytes to
disk) or a reported I/O error.
"""
import builtins
import errno
import io
import os
import shutil

CRASH_EXIT = 77

KINDS_OPEN = ("crash_before", "crash_after_create", "crash_mid_write", "crash_cut_tail1", "crash_cut_tail8", "err_open", "err_write", "err_perm")
KINDS_OTHER = ("crash_before", "err_op", "err_perm")  # err_perm: the operation is refused with EACCES (a PermissionError) once
KINDS_READ = ("err_open",)  # a crash before a read leaves the same disk state as a crash before the next mutation


class _WProxy:
    """Write-mode file proxy: first write consults the plan of the open op that created it."""

    def __init__(self, fs, real, idx, binary):
        self._fs = fs
        self._real = real
        self._idx = idx
        self._binary = binary
        self._first = True

    def write(self, data):
        if self._first:
            self._first = False
            kind = self._fs.plan.get(self._idx)
            if kind in ("crash_mid_write", "err_write", "crash_cut_tail1", "crash_cut_tail8"):
                self._fs.fired.add(self._idx)
                half = data[: (len(data) + 1) // 2]
                if kind.startswith("crash_cut_tail"):  # everything but the last 1 / 8 bytes reached the disk
                    half = data[: max(0, len(data) - int(kind[len("crash_cut_tail"):]))]
                self._real.write(half)
                self._real.flush()
                if kind.startswith("crash"):
                    os._exit(CRASH_EXIT)
                raise OSError(errno.ENOSPC, "No space left on device (injected)")
        return self._real.write(data)

    def __enter__(self):
        return self

    def __exit__(self, *exc):
        self._real.close()
        return False

    def __getattr__(self, name):
        return getattr(self._real, name)


class FaultFS:
    def __init__(self, roots, reads=False):
        self.roots = tuple(os.path.realpath(r) for r in roots)
        self.reads = reads  # also give read-mode opens an index in the op log (kind "open-r")
        self.log = []
        self.plan = {}
        self.fired = set()
        self.match = None  # (kind, substring of the relative path, fault): applies once, to the first matching op
        self._saved = None

    def under(self, p):
        try:
            p = os.fspath(p)
        except TypeError:
            return None
        if isinstance(p, bytes):
            p = p.decode("utf-8", "replace")
        if not isinstance(p, str):
            return None
        ap = os.path.abspath(p)
        for r in self.roots:
            if ap == r or ap.startswith(r + os.sep):
                return os.path.relpath(ap, os.path.dirname(r))
        return None

    def _op(self, kind, rel):
        idx = len(self.log)
        self.log.append((kind, rel))
        if self.match and self.match[0] == kind and self.match[1] in rel:
            self.plan[idx] = self.match[2]
            self.match = None
        f = self.plan.get(idx)
        if f is not None and f not in ("crash_mid_write", "err_write", "crash_cut_tail1", "crash_cut_tail8"):
            self.fired.add(idx)
        if f == "crash_before":
            os._exit(CRASH_EXIT)
        if f == "err_perm":
            raise PermissionError(errno.EACCES, "Permission denied (injected) on %s" % kind)
        if f in ("err_open", "err_op"):
            raise OSError(errno.ENOSPC if kind == "open-w" else errno.EIO, "injected I/O error on %s" % kind)
        return idx, f

    def install(self):
        fs = self
        real_open = builtins.open
        real = {"mkdir": os.mkdir, "unlink": os.unlink, "remove": os.remove, "rename": os.rename,
                "replace": os.replace, "rmdir": os.rmdir, "rmtree": shutil.rmtree, "truncate": os.truncate}
        self._saved = (real_open, io.open, real)

        def vf_open(file, mode="r", *a, **kw):
            rel = fs.under(file) if not isinstance(file, int) else None
            if rel is not None and fs.reads and not any(c in mode for c in "wax+"):
                fs._op("open-r", rel)
                return real_open(file, mode, *a, **kw)
            if rel is None or not any(c in mode for c in "wax+"):
                return real_open(file, mode, *a, **kw)
            idx, f = fs._op("open-w", rel)
            fh = real_open(file, mode, *a, **kw)
            if f == "crash_after_create":
                fh.close()
                os._exit(CRASH_EXIT)
            return _WProxy(fs, fh, idx, "b" in mode)

        def wrap(name, nargs=1):
            fn = real[name]

            def w(*a, **kw):
                rels = [fs.under(x) for x in a[:nargs]] if "dir_fd" not in kw else []
                rel = next((r for r in rels if r is not None), None)
                if rel is None:
                    return fn(*a, **kw)
                fs._op(name, rel)
                return fn(*a, **kw)

            w.__name__ = name
            return w

        builtins.open = vf_open
        io.open = vf_open
        os.mkdir = wrap("mkdir")
        os.unlink = wrap("unlink")
        os.remove = wrap("remove")
        os.rename = wrap("rename", 2)
        os.replace = wrap("replace", 2)
        os.rmdir = wrap("rmdir")
        shutil.rmtree = wrap("rmtree")
        os.truncate = wrap("truncate")

    def uninstall(self):
        if self._saved:
            real_open, io_open, real = self._saved
            builtins.open = real_open
            io.open = io_open
            os.mkdir, os.unlink, os.remove = real["mkdir"], real["unlink"], real["remove"]
            os.rename, os.replace, os.rmdir = real["rename"], real["replace"], real["rmdir"]
            shutil.rmtree, os.truncate = real["rmtree"], real["truncate"]
            self._saved = None

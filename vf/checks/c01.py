"""C01 - memoized results are never stale with respect to code and data changes.

Generated programs x all edit histories up to a bounded length x delivery {cross-process,
in-process re-exec/rebind, in-process reload}; after every edit every auto-versioned memento
function is called (explicit argument and defaults) and must return exactly what the plain
(un-decorated) rendering of the CURRENT edition returns, or raise UndeclaredDependencyError.
"""
import itertools
import os

from ..core import scratch_dir, rm, pmap, HarnessError
from .. import farm, progen
from ..progen import mkfunc, call

FORMS = ("bare", "modattr", "alias", "wrapper", "nested")


def skeletons(tier):
    progs = []
    for form in FORMS:
        mod = "b" if form == "modattr" else "a"
        progs.append(("R-%s->D:memento->D2:plain" % form, {
            "funcs": [mkfunc("R", calls=[call("D", form)], reads=["G"]),
                      mkfunc("D", module=mod, calls=[call("D2")]),
                      mkfunc("D2", kind="plain", module=mod, reads=["G"] if mod == "a" else [])],
            "vars": {"G": 5}}))
        progs.append(("R-%s->D:plain->D2:memento" % form, {
            "funcs": [mkfunc("R", calls=[call("D", form)]),
                      mkfunc("D", kind="plain", module=mod, calls=[call("D2")]),
                      mkfunc("D2", module=mod, rich=False)],
            "vars": {}}))
    # further syntactic positions of a reference (one skeleton each, alternating the kinds along the chain)
    for k, form in enumerate(("comp", "lambda", "partial", "cond", "default", "innerdef")):
        if k % 2:
            progs.append(("R-%s->D:memento->D2:plain" % form, {
                "funcs": [mkfunc("R", calls=[call("D", form)], rich=False), mkfunc("D", calls=[call("D2", form)], rich=False),
                          mkfunc("D2", kind="plain", reads=["G"], rich=False)], "vars": {"G": 5}}))
        else:
            progs.append(("R-%s->D:plain->D2:memento" % form, {
                "funcs": [mkfunc("R", calls=[call("D", form)], rich=False), mkfunc("D", kind="plain", calls=[call("D2", form)], rich=False),
                          mkfunc("D2", reads=["G"], rich=False)], "vars": {"G": 5}}))
    progs.append(("vars-and-constants", {
        "funcs": [mkfunc("R", calls=[call("D")], reads=["G", "GS", "GL", "GD", "GF", "GB", "GN", "Cfg.X", "cfg.Y"], rich=False),
                  mkfunc("D", kind="plain", reads=["GL", "Cfg.X"], rich=False)],
        "vars": {"G": 5, "GS": "s", "GL": [1, 2], "GD": {"k": 1}, "GF": 1.5, "GB": True, "GN": None},
        "classes": {"Cfg": {"X": 1}, "C1": {"Y": 10}, "C2": {"Y": 20}},
        "bindings": {"cfg": "C1"}, "binding_alternatives": {"cfg": ["C1", "C2"]}}))
    progs.append(("explicit-dependency", {
        "funcs": [mkfunc("R", calls=[call("D")], rich=False),
                  mkfunc("D", kind="explicit", version="1", calls=[call("D2")]),
                  mkfunc("D2", kind="plain", rich=False)],
        "vars": {}}))
    progs.append(("retarget", {
        "funcs": [mkfunc("R", calls=[call("D")], rich=False), mkfunc("D", rich=False), mkfunc("E", rich=False),
                  mkfunc("P", kind="plain", calls=[call("D")], rich=False), mkfunc("R2", calls=[call("P")], rich=False)],
        "vars": {}, "retargets": {"D": ["E"]}}))
    progs.append(("late-helper", {
        "funcs": [mkfunc("R", calls=[call("K")], rich=False), mkfunc("K", kind="plain", reads=["LV"])],
        "vars": {"LV": 3}, "late": ["LV"], "order": ["R", "K"]}))
    # functions whose only default value is a keyword-only one
    ko = {"funcs": [mkfunc("R", calls=[call("D")], rich=False), mkfunc("D", kind="plain", calls=[call("D2")], rich=False), mkfunc("D2", rich=False)], "vars": {}}
    for f_ in ko["funcs"]:
        f_["no_pos_default"] = True
    progs.append(("keyword-only-default-only", ko))
    # an attribute that does not exist yet on the object a dotted name resolves to (read guarded), added later
    progs.append(("late-attribute", {
        "funcs": [mkfunc("R", calls=[call("D")], reads=["cfg.Z?", "Cfg.W?", "Cfg.Z?"], rich=False), mkfunc("D", kind="plain", reads=["Cfg.W?"], rich=False)],
        "vars": {}, "classes": {"Cfg": {"X": 1}, "C1": {"Y": 10}}, "bindings": {"cfg": "C1"},
        "addable_attrs": [["C1", "Z"], ["Cfg", "W"], ["Cfg", "Z"]]}))  # the same attribute name is missing on two objects
    # a plain helper living in the package's own __init__.py
    progs.append(("helper-in-package-init", {
        "funcs": [mkfunc("R", calls=[call("K", "pkgattr"), call("D")], rich=False), mkfunc("K", kind="plain", module="i"),
                  mkfunc("D", kind="plain", calls=[call("K2", "pkgattr")], rich=False), mkfunc("K2", kind="plain", module="i", rich=False)],
        "vars": {}}))
    # reference cycles: a function calling itself, and two functions calling each other (guarded by the argument)
    progs.append(("cycles", {
        "funcs": [mkfunc("R", calls=[call("R", "rec"), call("D", "rec")], rich=False), mkfunc("D", calls=[call("R", "rec"), call("P", "rec")], rich=False),
                  mkfunc("P", kind="plain", calls=[call("D", "rec")], rich=False)],
        "vars": {}}))
    # sibling helpers that share a qualified name (closures made by a factory called _mk): each of them is part of the version
    sq = {"funcs": [mkfunc("R", calls=[call("D"), call("D2"), call("D3")], rich=False), mkfunc("D", kind="plain", reads=["G"], rich=False),
                    mkfunc("D2", kind="plain", rich=False), mkfunc("D3", kind="plain", calls=[call("D2")], rich=False)], "vars": {"G": 5}}
    for f_ in sq["funcs"][1:]:
        f_["as_closure"] = True
    progs.append(("same-qualname-helpers", sq))
    # the first evaluation after every edit is a top-level batch / range call (then the plain call)
    for form_ in ("batch", "range"):
        progs.append(("first-call-is-%s" % form_, {
            "funcs": [mkfunc("R", calls=[call("D")], reads=["G"], rich=False), mkfunc("D", kind="plain", reads=["G"], rich=False)],
            "vars": {"G": 5}, "first_call": form_}))
    # several tracked variables holding equal values: an edit may give one the value another one has (or had)
    progs.append(("equal-valued-vars", {
        "funcs": [mkfunc("R", calls=[call("D")], reads=["V1", "V2", "V3"], rich=False),
                  mkfunc("D", kind="plain", reads=["V3", "W1", "W2"], rich=False)],
        "vars": {"V1": 1, "V2": 2, "V3": 1, "W1": "a", "W2": "b"}, "copy_edits": True}))
    # memento callees living in another package (vfq.lib) are tracked across packages; PLAIN helpers of that other
    # package are outside the statement ("plain helper functions of the same package"), so the skeleton has none
    progs.append(("cross-package", {
        "funcs": [mkfunc("R", calls=[call("G", "xpkg"), call("P")], rich=False), mkfunc("G", module="q", calls=[call("G2")]),
                  mkfunc("G2", module="q", rich=False), mkfunc("P", kind="plain", calls=[call("G2", "xpkg")], rich=False)],
        "vars": {}}))
    progs.append(("hidden-from-root", {
        "funcs": [mkfunc("R", calls=[call("D"), call("H", "hidden")], rich=False), mkfunc("D", rich=False), mkfunc("H")],
        "vars": {}, "hidden": True}))
    progs.append(("hidden-callee-memoized-first", {
        "funcs": [mkfunc("R", calls=[call("H", "hidden")], rich=False), mkfunc("H", rich=False)],
        "vars": {}, "hidden": True, "callee_first": True}))
    progs.append(("hidden-from-helper", {
        "funcs": [mkfunc("R", calls=[call("D")], rich=False), mkfunc("D", kind="plain", calls=[call("H", "hidden")], rich=False),
                  mkfunc("H", rich=False)],
        "vars": {}, "hidden": True}))
    return progs


def calls_for(prog):
    calls = []
    for f in prog["funcs"]:
        if f["kind"] == "memento" and f["module"] == "a":
            calls.append((f["name"], (1,), {}, None))
            calls.append((f["name"], (), {}, None))
    if prog.get("first_call"):
        calls.insert(0, ("R", (1,), {}, prog["first_call"]))
    if prog.get("callee_first"):
        return [("H", (1,), {}, None), ("R", (1,), {}, None), ("R", (), {}, None), ("H", (), {}, None)]
    if prog.get("hidden"):
        calls.insert(0, ("R", (1,), {}, "force_local"))
        calls.insert(1, ("R", (1,), {}, "ctx"))
        calls.insert(2, ("R", (1,), {}, "partial"))
    return calls


def site_role(prog, site, fname):
    kind, where, what = site
    if kind == "revert":
        return "revert"
    if kind in ("feature", "retarget"):
        f = next(x for x in prog["funcs"] if x["name"] == where)
        role = "self" if where == fname else "dep"
        return "%s:%s" % (role, f["kind"])
    return kind


_plain_cache = {}


def history_case(args):
    pi, sites, delivery, tier = args
    name, p0 = skeletons(tier)[pi]
    editions = [p0]
    for s in sites:
        if s[0] == "revert":
            nxt = editions[s[1]]  # back to an earlier edition (A -> B -> A)
        else:
            nxt = progen.apply_edit(editions[-1], s)
        if nxt is None:
            return {"evaluations": 0}
        editions.append(nxt)
    calls = calls_for(p0)
    vnames = [f["name"] for f in p0["funcs"] if f["kind"] != "plain" and f["module"] == "a"]
    top = scratch_dir("c01")
    out = {"evaluations": 1, "transitions": len(sites), "traces": 1, "states": len(editions), "violations": [], "outcomes": [],
           "stats": {"ref_changed": 0, "version_changed": 0, "stale_possible": 0, "refused": 0}}
    try:
        store = os.path.join(top, "store")
        if delivery == "xproc":
            got, ref = [], []
            for k, ed in enumerate(editions):
                got.append(farm.run_xproc(ed, os.path.join(top, "m%d" % k), store, calls, False, vnames))
                key = progen.key(ed)
                if key not in _plain_cache:
                    _plain_cache[key] = farm.run_xproc(ed, os.path.join(top, "p%d" % k), store, calls, True)
                ref.append(_plain_cache[key])
        else:
            mode = delivery.split(":")[1]
            got = farm.run_inproc(editions, os.path.join(top, "m"), store, calls, False, mode, vnames)
            ref = farm.run_inproc(editions, os.path.join(top, "p"), store, calls, True, mode)
        for k in range(len(editions)):
            for ci, c in enumerate(calls):
                g, gb = got[k]["results"][ci]
                r, rb = ref[k]["results"][ci]
                if k > 0 and ref[k - 1]["results"][ci][0] != r:
                    out["stats"]["ref_changed"] += 1
                ok = (g == r)
                if not ok and g[0] == "exc" and r[0] == "exc":
                    ok = g[1] == r[1] and g[2].startswith(r[2][:40])
                if not ok and g[0] == "exc" and g[1] == "UndeclaredDependencyError" and p0.get("hidden"):
                    ok = True
                    out["stats"]["refused"] += 1
                if not ok:
                    site = sites[k - 1] if k > 0 else ("initial", None, None)
                    stale = k > 0 and g == got[k - 1]["results"][ci][0]
                    clause = "stale" if stale else ("raised" if g[0] == "exc" else "wrong-value")
                    what = site[2] if site[0] in ("feature", "addattr") else (site[1] if site[0] in ("var", "varcopy", "classattr", "rebind", "bvar") else "")
                    sig = "%s|%s:%s|%s|%s%s" % (delivery.split(":")[0] if clause != "stale" or ":" not in delivery else delivery,
                                                site[0], what, site_role(p0, site, c[0]) if k > 0 else "-", clause,
                                                "|via=" + c[3] if c[3] else "")
                    if "hidden" in name:
                        sig += "|hidden-edge"
                    out["violations"].append((sig, "%s: %s%r%s returned %.90r\nun-memoized run of the current edition gives %.90r\nprogram=%s edits=%s delivery=%s"
                                              % (clause, c[0], c[1], " via " + c[3] if c[3] else "", g, r, name, list(sites), delivery),
                                              {"program": pi, "name": name, "sites": [list(s) for s in sites], "delivery": delivery, "tier": tier}))
                    break
            if k > 0 and got[k]["versions"] != got[k - 1]["versions"]:
                out["stats"]["version_changed"] += 1
        out["outcomes"].append("%s|%s|%s" % (name, delivery, [s[0] + ":" + str(s[2] or s[1]) for s in sites]))
    except farm.ChildFailed as e:
        raise HarnessError("child failed for %s %s %s: %s" % (name, sites, delivery, e))
    finally:
        rm(top)
    return out


# -- two plain helpers with byte-identical source in two modules (their globals differ) ---------------------------------
TWIN_HELPER = "FACTOR = %d\n\n\ndef convert(x):\n    return x * FACTOR\n"
TWIN_APP = ("import sys\nimport twosigma.memento as m\nfrom .%s import convert\n\n\n@m.memento_function\ndef report(x):\n"
            "    sys.audit('vf.body', 'report', x)\n    return convert(x)\n")


def _twin_child(root, store, hist, write):
    import importlib
    import sys

    from .. import audit

    audit.install()
    farm.set_env(store)
    if write:
        os.makedirs(os.path.join(root, "vft"), exist_ok=True)
        open(os.path.join(root, "vft", "__init__.py"), "w").close()
        open(os.path.join(root, "vft", "metric.py"), "w").write(TWIN_HELPER % 1000)
        open(os.path.join(root, "vft", "imperial.py"), "w").write(TWIN_HELPER % 5280)
        open(os.path.join(root, "vft", "app.py"), "w").write(TWIN_APP % write)
    sys.path.insert(0, root)
    app = importlib.import_module("vft.app")
    mods = {"metric": importlib.import_module("vft.metric"), "imperial": importlib.import_module("vft.imperial")}
    out = []
    for ev in hist:
        if ev in mods:
            app.convert = mods[ev].convert  # the call edge is re-pointed in the running process
        try:
            out.append((ev, app.report(10)))
        except Exception as e:
            out.append((ev, "EXC:%s" % type(e).__name__))
    return out


def twin_case(hist):
    """report() calls `convert`, a module-level name bound to metric.convert or imperial.convert - same source text, other
    module globals. The name is re-pointed in the running process (events) or in the text between two processes."""
    top = scratch_dir("c01t")
    out = {"evaluations": 1, "transitions": len(hist), "traces": 1, "states": len(hist), "violations": [], "outcomes": ["twin|%s" % (hist,)]}
    want = {"metric": 10000, "imperial": 52800}
    try:
        store = os.path.join(top, "store")
        try:
            if hist[0] == "xproc":  # one process per edition of app.py
                res, cur = [], None
                for k, ev in enumerate(hist[1:]):
                    r = farm.fork_call(_twin_child, os.path.join(top, "x"), store, ("call",), ev)
                    res.append((ev, r[0][1]))
            else:
                res = farm.fork_call(_twin_child, os.path.join(top, "i"), store, tuple(hist), "metric")
        except farm.ChildFailed as e:
            raise HarnessError("twin-helper child failed for %s: %s" % (hist, e))
        cur = "metric"
        for ev, got in res:
            cur = ev if ev in want else cur
            if got != want[cur] and got != "EXC:UndeclaredDependencyError":
                out["violations"].append(("twin-helpers|%s|stale" % ("xproc" if hist[0] == "xproc" else "inproc"),
                                          "report(10) returned %r while `convert` is %s.convert (un-memoized: %d)\nhistory: %s" % (got, cur, want[cur], list(hist)),
                                          {"twin": list(hist)}))
                break
    finally:
        rm(top)
    return out


def run(ctx):
    thorough = ctx.tier == "thorough"
    L = 2 if thorough else 1
    ctx.rule = ("program skeletons (root memento function -> dependency chain over memento/explicit/plain functions via "
                "bare/module.attr/alias/wrapper/nested-call references, globals of 7 types, class constants, dotted head "
                "rebinding, late definitions, hidden dynamic edges) x every edit site (each literal/default/kw-default/"
                "set/tuple/lambda/nested/comprehension constant of each function, each variable, class attribute, call "
                "retarget, binding) x all edit sequences of length <= %d x delivery {cross-process, in-process re-exec, "
                "in-process reload}; distinct = (program, delivery, edit sequence)." % L)
    ctx.assumptions += ["explicit-version functions are edited only together with a version bump",
                        "the in-process reference applies the same module manipulations to the un-decorated rendering"]
    sk = skeletons(ctx.tier)
    tasks = []
    for pi, (name, p0) in enumerate(sk):
        sites = progen.edit_sites(p0)
        sites = [s for s in sites if progen.apply_edit(p0, s) is not None]
        has_container = any(isinstance(v, (list, dict)) for v in p0.get("vars", {}).values()) or bool(p0.get("addable_attrs"))
        for delivery in ("xproc", "inproc:reexec", "inproc:reload") + (("inproc:mutate",) if has_container else ()):
            tasks.append((pi, (), delivery, ctx.tier))
            for s in sites:
                if delivery == "inproc:mutate" and not ((s[0] == "var" and isinstance(p0["vars"][s[1]], (list, dict))) or s[0] in ("addattr", "classattr")):
                    continue  # in-place mutation of a tracked list / dict / live class object instead of re-binding the name
                tasks.append((pi, (s,), delivery, ctx.tier))
                if delivery != "inproc:reload" or thorough:
                    tasks.append((pi, (s, ("revert", 0, None)), delivery, ctx.tier))
            if L >= 2 and delivery not in ("inproc:reload", "inproc:mutate"):
                for s1, s2 in itertools.product(sites, repeat=2):
                    if s1[0] == "feature" and s2[0] == "feature" and s1[1] == s2[1] and s1[2] != s2[2] and len(sites) > 30:
                        continue  # two different constants of the same function: covered at L=1 each
                    tasks.append((pi, (s1, s2), delivery, ctx.tier))
    # determinism self-check: one history twice
    a = history_case(tasks[1])
    b = history_case(tasks[1])
    ctx.selfcheck("one edit history gives identical observations twice", a["violations"] == b["violations"] and a["stats"] == b["stats"])
    if ctx.seed:
        import random

        random.Random(ctx.seed).shuffle(tasks)
    res = pmap(history_case, tasks, chunksize=4)
    ctx.merge(res)
    tw = [h for n_ in (1, 2, 3) for h in itertools.product(("call", "metric", "imperial"), repeat=n_)] + \
         [("xproc",) + h for n_ in (2, 3) for h in itertools.product(("metric", "imperial"), repeat=n_)]
    ctx.merge(pmap(twin_case, tw, chunksize=4))
    ctx.rule += (" Plus: a module-level name re-pointed between two plain helpers with byte-identical source in two modules (other globals), all event "
                 "sequences to length 3 in one process and all editions sequences to length 3 across processes.")
    stats = {}
    for r in res:
        for k, v in r.get("stats", {}).items():
            stats[k] = stats.get(k, 0) + v
    ctx.extra["nonvacuity"] = stats
    ctx.extra["programs"] = len(sk)
    ctx.extra["max_history_length"] = L
    ctx.sample({"program": sk[0][0], "text_a": progen.render(sk[0][1])["a.py"][:1500]})
    ctx.sample({"history": list(tasks[len(tasks) // 2][1]), "delivery": tasks[len(tasks) // 2][2]})


def replay(ctx, art):
    if "twin" in art["artefact"]:
        r = twin_case(tuple(art["artefact"]["twin"]))
        for v in r["violations"]:
            print(v[0], "\n", v[1])
        print("REPLAY property=C01 result=%s" % bool(r["violations"]))
        return 1 if r["violations"] else 0
    a = art["artefact"]
    r = history_case((a["program"], tuple(tuple(s) for s in a["sites"]), a["delivery"], a.get("tier", "quick")))
    for v in r["violations"]:
        print(v[0], "\n", v[1])
    print("REPLAY property=C01 result=%s" % bool(r["violations"]))
    return 1 if r["violations"] else 0

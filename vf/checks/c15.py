"""C15 - batch evaluation equals element-wise evaluation, in order.

Bounded-exhaustive enumeration: batches of length 0..n over {0, 1, 2, F (raises), N (raises a
not-to-be-memoized exception)} with duplicates x every subset of the memoizable elements
memoized beforehand (for the cached backend: resident in the cache or on disk only) x
raise_first_exception x partial-application prefix x {call_batch, map_over_range} x backends;
oracle: a twin store driven by individual calls.
"""
import itertools
import os

from ..core import scratch_dir, rm, pmap

MB = 1024 * 1024
ALPHA = [0, 1, 2, "F", "N"]


def mk_backend(kind, root):
    from twosigma.memento.storage_filesystem import FilesystemStorageBackend
    from twosigma.memento.storage_memory import MemoryStorageBackend

    if kind == "mem":
        return MemoryStorageBackend()
    if kind == "fs":
        return FilesystemStorageBackend(path=root)
    return FilesystemStorageBackend(path=root, memory_cache_mb=1)


def use(b):
    import twosigma.memento as m

    m.Environment.set(m.Environment(name="e", base_dir="/nonexistent-vf", repos=[
        m.ConfigurationRepository(name="r", clusters={"vfc": m.FunctionCluster(name="vfc", storage=b)})]))


def outcome(fn, *a, **k):
    try:
        return ("val", fn(*a, **k))
    except Exception as e:
        return ("exc", type(e).__name__, str(e)[:60].split(". Original")[0])


def norm(r):
    if isinstance(r, Exception):
        return ("exc", type(r).__name__, str(r)[:60].split(". Original")[0])
    return ("val", r)


def store_summary(b, f, ctx=None):
    out = []
    for x in ALPHA:
        fra = f.fn_reference().with_args(x=x, _memento_context_args=ctx)
        mm = b.get_memento(fra.fn_reference_with_arg_hash())
        out.append((x, None if mm is None else mm.invocation_metadata.result_type.name))
    return out


def case(args):
    from .. import audit
    from ..fixtures import c15fx as fx

    kind, batch, pre, raise_first, prefix, api = args
    top = scratch_dir("c15")
    out = {"evaluations": 1, "states": 1, "transitions": len(batch), "traces": 1, "violations": [], "outcomes": []}
    try:
        f = fx.b2.partial(7) if prefix == "pos" else fx.b2.partial(p=7) if prefix == "kw" else None
        cargs = None
        if prefix == "ctx":  # the batched function carries context arguments: they are part of every element's identity
            cargs = {"k": 1}
            f = fx.b2.partial(7).with_context_args(cargs)

        def call1(x):
            return (f(x=x) if f is not None else fx.b2(7, x))

        # --- twin: individual calls --------------------------------------------------------------
        bt = mk_backend(kind, os.path.join(top, "twin"))
        use(bt)
        for x, where in pre:
            outcome(call1, x)
        audit.bodies_reset()
        want = [outcome(call1, x) for x in batch]
        want_bodies = audit.bodies()
        want_store = store_summary(bt, fx.b2.partial(7), cargs)
        # --- subject: one batch --------------------------------------------------------------------
        b0 = mk_backend(kind, os.path.join(top, "subj"))
        use(b0)
        for x, where in pre:
            if where == "disk":
                outcome(call1, x)
        b1 = b0
        if kind == "fsc" and any(w == "disk" for _, w in pre):
            b1 = mk_backend(kind, os.path.join(top, "subj"))  # same directory, cold cache
            use(b1)
        for x, where in pre:
            if where != "disk":
                outcome(call1, x)
        audit.bodies_reset()
        fb = f if f is not None else fx.b2.partial(7)
        raised = None
        try:
            if api == "batch":
                got = fb.call_batch([{"x": x} for x in batch], raise_first_exception=raise_first)
                got = [norm(r) for r in got]
            else:
                d = fb.map_over_range(x=batch)
                got = [norm(d[x]) for x in batch]
        except Exception as e:
            raised = norm(e)
            got = None
        got_bodies = audit.bodies()
        got_store = store_summary(b1, fx.b2.partial(7), cargs)
        bad = None
        first_exc = next((w for w in want if w[0] == "exc"), None)
        expect_raise = (raise_first or api == "range") and first_exc is not None
        if expect_raise:
            if raised is None:
                bad = ("no-raise", "first failure %r was not raised; got %r" % (first_exc, got))
            elif raised[:2] != first_exc[:2] or not raised[2].startswith(first_exc[2][:20]):
                bad = ("wrong-raise", "raised %r, the first failing element gives %r" % (raised, first_exc))
        elif raised is not None:
            bad = ("raised", "batch raised %r; element-wise results are %r" % (raised, want))
        elif got != want:
            pos = next(i for i, (a, b) in enumerate(zip(got, want)) if a != b) if len(got) == len(want) else -1
            bad = ("slot-differs", "position %d: batch gives %r, individual call gives %r (batch %r)" % (pos, got[pos] if pos >= 0 else got, want[pos] if pos >= 0 else want, batch))
        if bad is None:
            prem = {x for x, _ in pre}
            for x in set(batch):
                n = sum(1 for bd in got_bodies if bd[1][1] == x)
                if x == "N":
                    ok = n <= batch.count("N")
                elif x in prem:
                    ok = n == 0
                else:
                    ok = n <= 1
                if not ok:
                    bad = ("body-count", "element %r ran %d times (pre-memoized: %s)" % (x, n, x in prem))
                    break
            if bad is None and not expect_raise and got_store != want_store:
                bad = ("store-differs", "store after batch %r, after individual calls %r" % (got_store, want_store))
        if bad:
            pm = "+".join(sorted({w for _, w in pre})) or "none"
            shape = "dup" if len(set(batch)) < len(batch) else "nodup"
            sig = "%s|%s|%s|premem:%s|%s|%s" % (kind, api, "raise-first" if raise_first else "collect", pm, shape, bad[0])
            out["violations"].append((sig, bad[1] + "\nbackend=%s batch=%r pre-memoized=%r raise_first=%s prefix=%s api=%s"
                                      % (kind, batch, pre, raise_first, prefix, api),
                                      {"case": [kind, batch, pre, raise_first, prefix, api]}))
        out["outcomes"].append("%s|%s|%s" % (kind, batch, pre))
    finally:
        rm(top)
    return out


def size_case(args):
    """Long batches (page / chunk boundaries of any bulk lookup): n distinct elements, the last ten memoized beforehand."""
    from .. import audit
    from ..fixtures import c15fx as fx

    kind, n, api = args
    top = scratch_dir("c15s")
    out = {"evaluations": 1, "states": 1, "transitions": n, "traces": 1, "violations": [], "outcomes": ["size|%s|%d|%s" % (kind, n, api)]}
    try:
        use(mk_backend(kind, os.path.join(top, "s")))
        f = fx.b2.partial(7)
        pre = list(range(max(0, n - 10), n))
        for x in pre:
            f(x=x)
        audit.bodies_reset()
        bad = None
        try:
            if api == "batch":
                got = f.call_batch([{"x": x} for x in range(n)])
            elif api == "range":
                d = f.map_over_range(x=list(range(n)))
                got = [d[x] for x in range(n)]
            else:
                # the range handed over as a one-shot iterable (generator / iterator / map object)
                it = {"range-gen": (x for x in range(n)), "range-iter": iter(list(range(n))), "range-map": map(int, range(n))}[api]
                d = f.map_over_range(x=it)
                if sorted(d) != list(range(n)):
                    bad = ("range-keys", "map_over_range over a one-shot iterable of %d values returned %d keys" % (n, len(d)))
                got = [d.get(x) for x in range(n)]
            wrong = [] if bad else [i for i in range(n) if got[i] != [7, i]]
            if wrong:
                bad = ("slot-differs", "batch of %d elements: position %d holds %r, the individual call gives %r" % (n, wrong[0], got[wrong[0]], [7, wrong[0]]))
        except Exception as e:
            bad = ("raised", "batch of %d elements raised %r" % (n, e))
        ran = sorted(b[1][1] for b in audit.bodies())
        if not bad and ran != list(range(0, max(0, n - 10))):
            bad = ("body-count", "batch of %d elements with the last ten memoized: bodies ran for %d elements (expected %d); first difference near %s"
                   % (n, len(ran), max(0, n - 10), next((i for i, (a, b) in enumerate(zip(ran, range(n))) if a != b), len(ran))))
        if not bad:
            audit.bodies_reset()
            for x in range(n):
                if f(x=x) != [7, x]:
                    bad = ("store-differs", "after the batch the individual call x=%d gives another value" % x)
                    break
            if not bad and audit.bodies():
                bad = ("store-differs", "after the batch %d elements are still not memoized" % len(audit.bodies()))
        if bad:
            out["violations"].append(("%s|%s|size:%s|%s" % (kind, api, "<=64" if n <= 64 else ">64", bad[0]), bad[1] + "\nbackend=%s api=%s" % (kind, api), {"size": [kind, n, api]}))
    finally:
        rm(top)
    return out


def raise_size_case(args):
    """A long batch with ONE failing element, in the mode that raises the first failure. What is left in the store is what
    individual calls leave: either those made one after the other until the failure stops them (the elements up to and
    including the failing one), or all of them (each made on its own) - nothing in between; and the failure raised is that
    of the failing element."""
    from .. import audit
    from ..fixtures import c15fx as fx

    kind, n, fail_at, api = args
    top = scratch_dir("c15r")
    out = {"evaluations": 1, "states": 1, "transitions": n, "traces": 1, "violations": [], "outcomes": ["raise-size|%s|%d|%d|%s" % (kind, n, fail_at, api)]}
    try:
        use(mk_backend(kind, os.path.join(top, "s")))
        f = fx.b2.partial(7)
        batch = [("F" if i == fail_at else i) for i in range(n)]
        audit.bodies_reset()
        bad = None
        try:
            if api == "batch":
                f.call_batch([{"x": x} for x in batch])
            else:
                f.map_over_range(x=batch)
            bad = ("no-raise", "batch of %d elements with a failing element at position %d did not raise" % (n, fail_at))
        except Exception as e:
            if norm(e)[:2] != ("exc", "ValueError") or "failed-7-F" not in norm(e)[2]:
                bad = ("wrong-raise", "raised %r, the failing element gives ValueError('failed-7-F')" % (e,))
        ran = [b[1][1] for b in audit.bodies()]
        if not bad and len(ran) != len(set(ran)):
            bad = ("body-count", "an element ran more than once")
        if not bad:
            ran_i = sorted(x for x in ran if x != "F")
            if "F" not in ran or (ran_i != list(range(fail_at)) and ran_i != [i for i in range(n) if i != fail_at]):
                bad = ("store-differs", "after the raise %d of the %d other elements were evaluated (positions %s...): neither the %d before the failing one "
                       "nor all of them" % (len(ran_i), n - 1, ran_i[:3] + ran_i[-3:], fail_at))
        if not bad:
            # what ran is memoized: a second look runs nothing of it again
            audit.bodies_reset()
            for x in sorted(set(ran) - {"F"}):
                f(x=x)
            if audit.bodies():
                bad = ("store-differs", "%d elements evaluated by the raising batch are not memoized" % len(audit.bodies()))
        if bad:
            out["violations"].append(("%s|%s|raise-first|size:%s|%s" % (kind, api, "<=128" if n <= 128 else ">128", bad[0]),
                                      bad[1] + "\nbackend=%s api=%s n=%d failing position=%d" % (kind, api, n, fail_at), {"raise_size": [kind, n, fail_at, api]}))
    finally:
        rm(top)
    return out


def nested_case(args):
    """The batch issued from inside a running memento function vs the same elements called one by one from inside a
    twin function: same values, same record of the parent (invocations, dependencies), same store - whatever was
    memoized before, with and without context arguments on the parent."""
    from .. import audit
    from ..fixtures import c15fx as fx

    kind, batch, pre, ctx = args
    top = scratch_dir("c15n")
    out = {"evaluations": 1, "states": 1, "transitions": len(batch), "traces": 1, "violations": [], "outcomes": []}
    try:
        obs = {}
        for which, parent in (("each", fx.parent_each), ("batch", fx.parent_batch)):
            b = mk_backend(kind, os.path.join(top, which))
            use(b)
            wrap = (lambda f: f.with_context_args(ctx)) if ctx else (lambda f: f)
            for x in pre:
                outcome(wrap(fx.b2), 7, x)  # memoized under the context the nested calls will inherit
            audit.bodies_reset()
            r = outcome(wrap(parent), batch)
            ran = sorted(str(bd[1][1]) for bd in audit.bodies() if bd[0] == "b2")
            mm = wrap(parent).memento(batch)
            rec = None
            if mm is not None:
                rec = ([(i.fn_reference.qualified_name.split(":")[-1], i.arg_hash) for i in mm.invocation_metadata.invocations],
                       sorted(d.qualified_name.split(":")[-1].replace("parent_batch", "parent").replace("parent_each", "parent") for d in mm.function_dependencies))
            store = []
            for x in ALPHA:
                fra = fx.b2.fn_reference().with_args(7, x, _memento_context_args=ctx)
                m1 = b.get_memento(fra.fn_reference_with_arg_hash())
                store.append((x, None if m1 is None else m1.invocation_metadata.result_type.name))
            obs[which] = {"value": r, "b2-bodies": ran, "parent-record": rec, "store": store}
        if obs["each"] != obs["batch"]:
            diff = [k for k in obs["each"] if obs["each"][k] != obs["batch"][k]]
            sig = "%s|nested|premem:%s|ctx:%s|differs:%s" % (kind, "all" if set(x for x in batch if x != "N") <= set(pre) and pre else ("some" if pre else "none"),
                                                       "yes" if ctx else "no", "+".join(diff))
            out["violations"].append((sig, "a batch issued inside a running function differs from element-wise calls in %s:\n batch:        %s\n element-wise: %s\nbackend=%s batch=%r pre-memoized=%r context=%r"
                                      % (diff, {k: obs["batch"][k] for k in diff}, {k: obs["each"][k] for k in diff}, kind, batch, pre, ctx), {"nested": [kind, batch, pre, ctx]}))
        out["outcomes"].append("nested|%s|%r|%r|%r" % (kind, batch, pre, ctx))
    finally:
        rm(top)
    return out


LOOK = [1, 1.0, True, 0, 0.0, False]  # equal under ==, different argument identity


def ident(x):
    return (type(x).__name__, x)


def textalike():
    """values whose TEXT (str / isoformat) equals another element that is a string"""
    import datetime

    return {"date": datetime.date(2021, 3, 4), "date-str": "2021-03-04", "dt": datetime.datetime(2021, 3, 4, 5, 6, 7), "dt-str": "2021-03-04 05:06:07",
            "dt-iso": "2021-03-04T05:06:07", "none": None, "none-str": "None", "int": 1, "int-str": "1", "true": True, "true-str": "True", "float": 1.0, "float-str": "1.0"}


def lookalike_case(args):
    """map_over_range / call_batch over values that compare equal in Python but are different arguments: every one
    is its own call (own body run, own memento), exactly as with individual calls."""
    from .. import audit
    from ..fixtures import c15fx as fx

    kind, batch, pre, api = args
    names = None
    if batch and isinstance(batch[0], str) and batch[0].startswith("@"):  # named values (not JSON-representable themselves)
        names = (list(batch), list(pre))
        batch, pre = [textalike()[n[1:]] for n in batch], [textalike()[n[1:]] for n in pre]
    top = scratch_dir("c15l")
    out = {"evaluations": 1, "states": 1, "transitions": len(batch), "traces": 1, "violations": [], "outcomes": []}
    try:
        b = mk_backend(kind, os.path.join(top, "s"))
        use(b)
        f = fx.b2.partial(7)
        for x in pre:
            f(x=x)
        audit.bodies_reset()
        bad = None
        try:
            if api == "range":
                d = f.map_over_range(x=batch)
                if not all(any(ident(k) == ident(x) or k == x for k in d) for x in batch):
                    bad = ("range-keys", "map_over_range(%r) returned keys %r" % (batch, list(d)))
            else:
                got = f.call_batch([{"x": x} for x in batch])
                if [ident(r[1]) for r in got] != [ident(x) for x in batch]:
                    bad = ("slot-differs", "call_batch(%r) returned %r" % (batch, got))
        except Exception as e:
            bad = ("raised", "%s over %r raised %r" % (api, batch, e))
        ran = [ident(bd[1][1]) for bd in audit.bodies()]
        if not bad:
            for x in batch:
                want = 0 if any(ident(x) == ident(p) for p in pre) else 1
                if ran.count(ident(x)) != want:
                    bad = ("body-count", "element %r ran %d times, individual calls run it %d time(s); bodies run: %r" % (x, ran.count(ident(x)), want, ran))
                    break
        if not bad:
            for x in batch:
                audit.bodies_reset()
                r = outcome(f, x=x)
                if audit.bodies() or r[0] != "val" or ident(r[1][1]) != ident(x):
                    bad = ("store-differs", "after the batch, the individual call x=%r %s and gave %r" % (x, "ran its body" if audit.bodies() else "ran no body", r))
                    break
        if bad:
            sig = "%s|%s|lookalike|premem:%s|%s" % (kind, api, "some" if pre else "none", bad[0])
            out["violations"].append((sig, bad[1] + "\nbackend=%s batch=%r pre-memoized=%r api=%s" % (kind, batch, pre, api),
                                      {"lookalike": [kind, names[0] if names else batch, names[1] if names else pre, api]}))
        out["outcomes"].append("look|%s|%r|%r|%s" % (kind, batch, pre, api))
    finally:
        rm(top)
    return out


def run(ctx):
    thorough = ctx.tier == "thorough"
    n = 4 if thorough else 3
    ctx.rule = ("batches of length 0..%d over {0,1,2,F,N} with duplicates x every subset of the distinct memoizable elements pre-"
                "memoized (cached backend: each one resident in the cache or on disk only) x raise_first x prefix {none, positional "
                "partial, keyword partial, positional partial under context arguments} x {call_batch, map_over_range (duplicate-free batches)} x {memory, filesystem, "
                "filesystem+cache}; oracle = twin store driven by individual calls. distinct = (backend, batch, pre-memoized set)." % n)
    ctx.assumptions += ["an element raising a not-to-be-memoized exception may run once per occurrence (as with individual calls)",
                        "map_over_range raises the first failure (it calls call_batch with the default)"]
    tasks = []
    for L in range(n + 1):
        for batch in itertools.product(ALPHA, repeat=L):
            batch = list(batch)
            mem = sorted({x for x in batch if x != "N"}, key=str)
            for kind in ("mem", "fs", "fsc"):
                states = (None, "cache", "disk") if kind == "fsc" else (None, "pre")
                for assign in itertools.product(states, repeat=len(mem)):
                    pre = [(x, w) for x, w in zip(mem, assign) if w]
                    for raise_first in (True, False):
                        prefixes = ("pos", "kw", None, "ctx") if (thorough or L <= 2) else ("pos", "ctx")
                        for prefix in prefixes:
                            tasks.append((kind, batch, pre, raise_first, prefix, "batch"))
                    if len(set(batch)) == len(batch) and L > 0:
                        tasks.append((kind, batch, pre, True, "pos", "range"))
    if ctx.seed:
        import random

        random.Random(ctx.seed).shuffle(tasks)
    a = case(tasks[len(tasks) // 3])
    b = case(tasks[len(tasks) // 3])
    ctx.selfcheck("one case gives identical observations twice", a["violations"] == b["violations"])
    ctx.merge(pmap(case, tasks, chunksize=16))
    # look-alike elements (1, 1.0, True, 0, 0.0, False): duplicate-free by argument identity, colliding under ==
    lt = []
    for L in (2, 3):
        for batch in itertools.permutations(LOOK if thorough else LOOK[:4], L):
            if not any(a == b for i, a in enumerate(batch) for b in batch[i + 1:]):
                continue  # no collision under ==: covered above
            for r in range(2):
                for pre in itertools.combinations(batch, r):
                    for kind in ("mem", "fsc") if not thorough else ("mem", "fs", "fsc"):
                        for api in ("range", "batch"):
                            lt.append((kind, list(batch), list(pre), api))
    tn = ["@" + n for n in textalike()]
    for batch in itertools.permutations(tn, 2):
        for kind in ("mem", "fsc") if not thorough else ("mem", "fs", "fsc"):
            for api in ("range", "batch"):
                lt.append((kind, list(batch), [], api))
                if thorough:
                    lt.append((kind, list(batch), [batch[0]], api))
    ctx.merge(pmap(lookalike_case, lt, chunksize=16))
    # long batches, and batches issued from inside a running function
    st = [(kind, n, api) for kind in (("fs",) if not thorough else ("mem", "fs", "fsc")) for n in ((63, 64, 65, 130) if not thorough else (63, 64, 65, 127, 128, 129, 257, 1025))
          for api in ("batch", "range")]
    st += [("fs", n, api) for n in (0, 1, 12) for api in ("range-gen", "range-iter", "range-map")]
    ctx.merge(pmap(size_case, st, chunksize=1))
    rst = [(kind, n, p, api) for kind in (("fs",) if not thorough else ("mem", "fs", "fsc")) for n in ((65, 130, 260) if not thorough else (65, 129, 130, 257, 520, 1030))
           for p in sorted({0, 1, n // 3, n - 1}) for api in ("batch", "range")]
    ctx.merge(pmap(raise_size_case, rst, chunksize=1))
    nt = []
    for L in range(1, (3 if thorough else 2) + 1):
        for batch in itertools.product([0, 1, "F"] + (["N"] if thorough else []), repeat=L):
            mem = sorted({x for x in batch if x != "N"}, key=str)
            for r in range(len(mem) + 1):
                for pre in itertools.combinations(mem, r):
                    for kind in ("mem", "fsc") if not thorough else ("mem", "fs", "fsc"):
                        for c in (None, {"k": 1}):
                            nt.append((kind, list(batch), list(pre), c))
    ctx.merge(pmap(nested_case, nt, chunksize=8))
    ctx.extra["long_batch_cases"] = len(st)
    ctx.extra["nested_batch_cases"] = len(nt)
    ctx.rule += (" Plus long batches (63..130 elements, thorough to 1025; the last ten memoized beforehand) and batches issued from "
                 "inside a running memento function compared with element-wise calls from inside a twin function (values, the "
                 "parent's recorded invocations and dependencies, store), with and without context arguments.")
    ctx.extra["lookalike_cases"] = len(lt)
    ctx.rule += (" Plus batches of 2-3 elements over look-alike values (1, 1.0, True, 0, ...) that collide under == but are different "
                 "arguments: each runs its own body once and is memoized on its own.")
    ctx.extra["cases"] = len(tasks)
    ctx.sample({"case": list(tasks[len(tasks) // 2])})
    ctx.sample({"case": list(tasks[-1])})


def replay(ctx, art):
    if "size" in art["artefact"] or "nested" in art["artefact"] or "raise_size" in art["artefact"]:
        a = art["artefact"]
        r = raise_size_case(tuple(a["raise_size"])) if "raise_size" in a else size_case(tuple(a["size"])) if "size" in a else nested_case((a["nested"][0], a["nested"][1], a["nested"][2], a["nested"][3]))
        for v in r["violations"]:
            print(v[0], "\n", v[1])
        print("REPLAY property=C15 result=%s" % bool(r["violations"]))
        return 1 if r["violations"] else 0
    if "lookalike" in art["artefact"]:
        c = art["artefact"]["lookalike"]
        r = lookalike_case((c[0], c[1], c[2], c[3]))
        for v in r["violations"]:
            print(v[0], "\n", v[1])
        print("REPLAY property=C15 result=%s" % bool(r["violations"]))
        return 1 if r["violations"] else 0
    c = art["artefact"]["case"]
    r = case((c[0], c[1], [tuple(p) for p in c[2]], c[3], c[4], c[5]))
    for v in r["violations"]:
        print(v[0], "\n", v[1])
    print("REPLAY property=C15 result=%s" % bool(r["violations"]))
    return 1 if r["violations"] else 0

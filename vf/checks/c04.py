"""C04 - argument identity: the memo key is canonical in the bound argument values.

Bounded-exhaustive enumeration: every value of the argument alphabet (atoms, containers, function
references with partials) x signatures x ALL presentations of a binding (positional / keyword
splits, keyword orders, one or two partial applications, dict insertion orders), and all ordered
pairs of distinct values for injectivity; every case is executed on the real reference /
hashing code and (for the call part) on a filesystem store.
"""
import itertools
import os

from ..core import scratch_dir, rm, pmap, HarnessError
from .. import audit, models, values


def fn_info(v):
    from twosigma.memento.types import MementoFunctionType

    if isinstance(v, MementoFunctionType):
        r = v.fn_reference()
        return (r.qualified_name, list(r.partial_args) if r.partial_args else None, dict(r.partial_kwargs or {}), r.parameter_names)
    return None


def fn_atoms():
    from ..fixtures import c04fx as fx

    return [("fn:g", fx.g), ("fn:g.partial(1)", fx.g.partial(1)), ("fn:g.partial(k=2)", fx.g.partial(k=2)),
            ("fn:g.partial(1).partial(q=3)", fx.g.partial(1).partial(q=3)),
            ("fn:g.partial(f1)", fx.g.partial(fx.f1)), ("fn:f1", fx.f1)]


def presentations(params, kwonly):
    """All ways to present a full binding of params: stage (partial 1 / partial 2 / call) per
    parameter; inside a stage the leading remaining positional parameters may go positionally."""
    out = []
    n = len(params)
    for stages in itertools.product((0, 1, 2), repeat=n):
        if 1 in stages and 0 not in stages:
            continue  # canonical: second partial only after a first one
        plan = []
        remaining = [p for p in params]
        ok = True
        opts_per_stage = []
        for st in (0, 1, 2):
            S = [p for p, s in zip(params, stages) if s == st]
            pos_cand = []
            for p in remaining:
                if p in S and p not in kwonly:
                    pos_cand.append(p)
                else:
                    break
            opts = []
            for j in range(len(pos_cand) + 1):
                pos = pos_cand[:j]
                kws = [p for p in S if p not in pos]
                opts.append((tuple(pos), tuple(kws)))
                if len(kws) > 1:
                    opts.append((tuple(pos), tuple(reversed(kws))))
            opts_per_stage.append(opts)
            remaining = [p for p in remaining if p not in S]
        for combo in itertools.product(*opts_per_stage):
            # Well-defined presentations only: positional arguments of partial applications are
            # bound to the leading parameters of the signature (so together they must be a prefix of
            # it); positional arguments of the final call go to the leading parameters still unbound.
            ppos = list(combo[0][0]) + list(combo[1][0])
            valid = ppos == [p for p in params if p not in kwonly][:len(ppos)]
            bound = set(ppos) | set(combo[0][1]) | set(combo[1][1])
            lead = [p for p in params if p not in bound and p not in kwonly][:len(combo[2][0])]
            if list(combo[2][0]) != lead:
                valid = False
            if valid:
                out.append(combo)
    return list(dict.fromkeys(out))


def apply_presentation(f, combo, binding):
    (p0, k0), (p1, k1), (p2, k2) = combo
    if p0 or k0:
        f = f.partial(*[binding[p] for p in p0], **{p: binding[p] for p in k0})
    if p1 or k1:
        f = f.partial(*[binding[p] for p in p1], **{p: binding[p] for p in k1})
    return f, [binding[p] for p in p2], {p: binding[p] for p in k2}


def expected_received(binding):
    from twosigma.memento.reference import ArgumentHasher

    return {k: ArgumentHasher.normalize(v) for k, v in binding.items()}


def same_received(got, want):
    from twosigma.memento.types import MementoFunctionType

    if isinstance(want, MementoFunctionType):
        return isinstance(got, MementoFunctionType) and fn_info(got) == fn_info(want)
    if isinstance(want, list):
        return isinstance(got, list) and len(got) == len(want) and all(same_received(a, b) for a, b in zip(got, want))
    if isinstance(want, dict):
        return isinstance(got, dict) and set(got) == set(want) and all(same_received(got[k], want[k]) for k in want)
    return values.deep_eq(got, want)


def setup_store():
    import twosigma.memento as m
    from twosigma.memento.storage_filesystem import FilesystemStorageBackend

    root = scratch_dir("c04")
    cluster = m.FunctionCluster(name="vfc", storage=FilesystemStorageBackend(path=os.path.join(root, "d")))
    m.Environment.set(m.Environment(name="vfenv", base_dir=root, repos=[m.ConfigurationRepository(name="r", clusters={"vfc": cluster})]))
    return root


def binding_case(args):
    """One binding: all presentations -> one hash == reference hash, one body run, body receives
    the normalized values."""
    fname, binding_names, tier = args
    from ..fixtures import c04fx as fx

    allv = dict(values.arg_atoms() + values.containers(values.arg_atoms(), 2 if tier == "thorough" else 1) + fn_atoms())
    binding = {p: allv[n] for p, n in binding_names}
    f = getattr(fx, fname)
    params = [p for p, _ in binding_names]
    kwonly = fx.KWONLY.get(fname, set())
    root = setup_store()
    out = {"evaluations": 0, "states": 1, "transitions": 0, "traces": 0, "violations": [], "outcomes": []}
    art = {"function": fname, "binding": [list(b) for b in binding_names], "tier": tier}
    try:
        want_hash = models.ref_arg_hash(binding, None, fn_info)
        hashes = set()
        audit.bodies_reset()
        for combo in presentations(params, kwonly):
            pf, pargs, pkw = apply_presentation(f, combo, binding)
            out["evaluations"] += 1
            out["transitions"] += 1
            out["traces"] += 1
            try:
                fra = pf.fn_reference().with_args(*pargs, **pkw)
            except Exception as e:
                out["violations"].append(("%s|presentation-rejected|%s" % (fname, type(e).__name__),
                                          "presentation %s of %s rejected: %r" % (combo, binding_names, e), art))
                return out
            hashes.add(fra.arg_hash)
            if fra.arg_hash != want_hash:
                pk = "partial-kw-then-positional" if (combo[0][1] or combo[1][1]) and combo[2][0] else "other"
                out["violations"].append(("%s|hash-differs-from-documented-algorithm|%s|%s" % (fname, _vclass(binding_names), pk),
                                          "presentation %s of binding %s hashes to %s, documented algorithm gives %s (effective kwargs %r)"
                                          % (combo, binding_names, fra.arg_hash[:12], want_hash[:12], fra.effective_kwargs), art))
                return out
            pf(*pargs, **pkw)
        # A partial application must not be affected by other partials derived from it: derive (and
        # discard) a sibling that binds / overrides further parameters, then finish the original.
        if not out["violations"] and len(params) >= 2:
            for first in params:
                if first in kwonly and fname == "fkw":
                    continue
                p1 = f.partial(**{first: binding[first]})
                rest = [p for p in params if p != first]
                other = {p: "sibling-%s" % p for p in rest}
                other[first] = "sibling-override"
                p1.partial(**other)  # sibling, discarded
                out["evaluations"] += 1
                out["transitions"] += 1
                try:
                    pos = [p for p in rest if p not in kwonly]
                    kws = [p for p in rest if p in kwonly]
                    fra = p1.fn_reference().with_args(*[binding[p] for p in pos], **{p: binding[p] for p in kws})
                    h = fra.arg_hash
                except Exception as e:
                    h = "EXC:%r" % (e,)
                if h != want_hash:
                    out["violations"].append(("%s|partial-affected-by-derived-partial" % fname,
                                              "p1 = f.partial(%s=...); p1.partial(...) (discarded); p1(rest) hashes to %s, expected %s"
                                              % (first, h[:12], want_hash[:12]), art))
                    return out
        # a keyword given at call time overrides the value a keyword partial bound to the same parameter
        if not out["violations"]:
            for first in params:
                if fname == "fkw" and first in kwonly:
                    continue
                p1 = f.partial(**{first: "bound-by-the-partial"})
                out["evaluations"] += 1
                out["transitions"] += 1
                try:
                    pos = [p for p in params if p not in kwonly and p != first and params.index(p) < params.index(first)]
                    fra = p1.fn_reference().with_args(*[binding[p] for p in pos], **{p: binding[p] for p in params if p not in pos})
                    h = fra.arg_hash
                except Exception as e:
                    h = "EXC:%r" % (e,)
                if h != want_hash:
                    out["violations"].append(("%s|call-keyword-does-not-override-partial" % fname,
                                              "f.partial(%s=other)(..., %s=value) hashes to %s, the binding with the call-time value to %s"
                                              % (first, first, h[:12], want_hash[:12]), art))
                    return out
        # a reference keeps a snapshot of its arguments: changing a list / dict afterwards, in the caller's hands, changes
        # neither the key nor the arguments that will be recorded
        if not out["violations"]:
            import copy

            mine = {p: copy.deepcopy(v) if isinstance(v, (list, dict)) else v for p, v in binding.items()}
            if any(isinstance(v, (list, dict)) for v in mine.values()):
                pos = [p for p in params if p not in kwonly]
                fra = f.fn_reference().with_args(*[mine[p] for p in pos], **{p: mine[p] for p in params if p in kwonly})
                h0 = fra.arg_hash
                for v in mine.values():
                    if isinstance(v, list):
                        v.append("added-later")
                    elif isinstance(v, dict):
                        v["added-later"] = 1
                h1 = models.ref_arg_hash(dict(fra.effective_kwargs), None, fn_info)
                out["evaluations"] += 1
                out["transitions"] += 1
                if h0 != want_hash or h1 != want_hash:
                    out["violations"].append(("%s|arguments-aliased-to-caller|%s" % (fname, _vclass(binding_names)),
                                              "after the caller changed its list / dict, the arguments held by the reference hash to %s (key %s, documented %s)"
                                              % (h1[:12], h0[:12], want_hash[:12]), art))
        bodies = audit.bodies()
        if len(hashes) != 1:
            out["violations"].append(("%s|presentations-disagree" % fname, "presentations of %s give %d hashes" % (binding_names, len(hashes)), art))
        elif len(bodies) != 1:
            out["violations"].append(("%s|body-count|%d" % (fname, len(bodies)), "all presentations of %s ran the body %d times (expected once)"
                                      % (binding_names, len(bodies)), art))
        else:
            got = bodies[0][1]
            want = expected_received(binding)
            if not same_received(got, want):
                out["violations"].append(("%s|body-received|%s" % (fname, _vclass(binding_names)),
                                          "body received %r, normalized binding is %r" % (got, want), art))
        out["outcomes"].append("%s|%s" % (fname, sorted(hashes)))
    finally:
        rm(root)
    return out


def _vclass(binding_names):
    return "+".join(sorted({n.split(":")[0].strip("[]{}k:") or n for _, n in binding_names}))[:60]


def pair_case(args):
    """Injectivity: f2(a=v1, b=0) vs f2(a=v2, b=0) share a key iff the canonical encodings are equal."""
    names, tier = args
    from ..fixtures import c04fx as fx

    allv = values.arg_atoms() + values.containers(values.arg_atoms(), 2 if tier == "thorough" else 1) + fn_atoms()
    out = {"evaluations": 0, "states": 0, "transitions": 0, "traces": 0, "violations": [], "outcomes": []}
    enc = {}
    hs = {}
    for n, v in allv:
        enc[n] = models.json.dumps(models.ref_encode({"a": v, "b": 0}, fn_info), sort_keys=True, separators=(",", ":"))
        hs[n] = fx.f2.fn_reference().with_args(v, 0).arg_hash
    for n1 in names:
        for n2, _ in allv:
            out["evaluations"] += 1
            out["transitions"] += 1
            out["traces"] += 1
            same_enc = enc[n1] == enc[n2]
            same_hash = hs[n1] == hs[n2]
            if same_enc != same_hash:
                out["violations"].append(("injectivity|%s|%s" % (n1, n2), "values %s and %s: canonical encodings %s, keys %s"
                                          % (n1, n2, "equal" if same_enc else "differ", "equal" if same_hash else "differ"),
                                          {"pair": [n1, n2]}))
        out["states"] += 1
    out["outcomes"] = ["pairs:%s" % n for n in names]
    return out


def context_case(_):
    from ..fixtures import c04fx as fx

    out = {"evaluations": 0, "states": 1, "transitions": 0, "traces": 0, "violations": [], "outcomes": []}
    ctxs = [("absent", None), ("{}", {}), ("{k:1}", {"k": 1}), ("{k:2}", {"k": 2}), ("{k:1,j:fn}", {"k": 1, "j": fx.g}),
            ("{j:fn,k:1}", {"j": fx.g, "k": 1}), ("{k:True}", {"k": True}),
            # context arguments whose key is the name of a parameter of the called function
            ("{a:1}", {"a": 1}), ("{a:2}", {"a": 2})]
    hs = {}
    for n, c in ctxs:
        f = fx.f1 if c is None else fx.f1.with_context_args(c)
        fra = f.fn_reference().with_args(1, _memento_context_args=f.context.recursive.context_args)
        hs[n] = fra.arg_hash
        want = models.ref_arg_hash({"a": 1}, c, fn_info)
        out["evaluations"] += 1
        out["transitions"] += 1
        out["traces"] += 1
        if fra.arg_hash != want:
            out["violations"].append(("context|hash-differs|%s" % n, "context %s: key %s, documented %s" % (n, fra.arg_hash[:12], want[:12]), {"context": n}))
    for n, c in ctxs:
        if not c:
            continue
        for label, g in (("force_local", fx.f1.with_context_args(c).force_local()), ("ignore_result", fx.f1.with_context_args(c).ignore_result()),
                         ("partial", fx.f1.with_context_args(c).partial())):
            h = g.fn_reference().with_args(1, _memento_context_args=g.context.recursive.context_args).arg_hash
            out["evaluations"] += 1
            out["transitions"] += 1
            if h != hs[n]:
                out["violations"].append(("context|modifier-after-context|%s" % label, "f1.with_context_args(%s).%s(): key %s, with the context alone %s" % (n, label, h[:12], hs[n][:12]),
                                          {"context": n}))
                break
    # context arguments attached to a function object that carries others replace them (the identity is that of the last)
    for n1, c1 in ctxs:
        for n2, c2 in ctxs:
            if not c1 or not c2:
                continue
            g = fx.f1.with_context_args(dict(c1)).with_context_args(dict(c2))
            h = g.fn_reference().with_args(1, _memento_context_args=g.context.recursive.context_args).arg_hash
            out["evaluations"] += 1
            out["transitions"] += 1
            if h != hs[n2]:
                out["violations"].append(("context|attached-over-another|%s" % ("keys-dropped" if set(c1) - set(c2) else "same-keys"),
                                          "f1.with_context_args(%s).with_context_args(%s): key %s, with %s alone %s" % (n1, n2, h[:12], n2, hs[n2][:12]), {"context": [n1, n2]}))
                break
    groups = [["absent", "{}"], ["{k:1,j:fn}", "{j:fn,k:1}"]]
    for a, b in itertools.combinations(hs, 2):
        same = hs[a] == hs[b]
        want_same = any(a in g and b in g for g in groups)
        if same != want_same:
            out["violations"].append(("context|identity|%s|%s" % (a, b), "contexts %s and %s: keys %s" % (a, b, "equal" if same else "differ"), {"pair": [a, b]}))
    out["outcomes"] = ["ctx:%s" % sorted(set(hs.values()))]
    # context arguments are part of the identity of every call made beneath the call they were attached to
    from .. import audit

    setup_store()
    for n, c in (("{k:1}", {"k": 1}), ("{k:2}", {"k": 2}), ("absent", None)):
        audit.bodies_reset()
        top = fx.ctop if c is None else fx.ctop.with_context_args(c)
        top(1)
        ran = [b[0] for b in audit.bodies()]
        out["evaluations"] += 1
        out["transitions"] += 3
        out["traces"] += 1
        if ran != ["ctop", "cmid", "cleaf"]:
            out["violations"].append(("context|nested|shared-across-contexts", "ctop(1) under context %s ran bodies %s: a call beneath it was served "
                                      "from a result computed under other context arguments" % (n, ran), {"context": n}))
            break
        want = models.ref_arg_hash({"a": 1}, c, fn_info)
        for lvl, f in (("cmid", fx.cmid), ("cleaf", fx.cleaf)):
            g = f if c is None else f.with_context_args(c)
            mm = g.memento(1)
            got = None if mm is None else mm.invocation_metadata.fn_reference_with_args.arg_hash
            if got != want:
                out["violations"].append(("context|nested|hash-differs|%s" % lvl, "%s(1) beneath ctop under context %s: key %s, documented %s"
                                          % (lvl, n, got and got[:12], want[:12]), {"context": n}))
                break
    # values outside the supported argument types are refused before anything runs or is stored (never hashed like a
    # look-alike supported value)
    import numpy as np

    for label, bad_value in (("tuple", (1, 2)), ("set", {1}), ("bytes", b"x"), ("ndarray", np.array([1])), ("object", object()),
                             ("list-with-tuple", [1, (2,)]), ("dict-with-bytes", {"k": b"x"}), ("complex", 1j)):
        for how in ("positional", "keyword", "partial", "context"):
            audit.bodies_reset()
            try:
                if how == "positional":
                    fx.f1(bad_value)
                elif how == "keyword":
                    fx.f1(a=bad_value)
                elif how == "partial":
                    fx.f1.partial(bad_value)()
                else:
                    fx.f1.with_context_args({"k": bad_value})(77)
                outcome_ = "accepted"
            except Exception as e:
                outcome_ = type(e).__name__
            out["evaluations"] += 1
            out["transitions"] += 1
            if outcome_ == "accepted" or audit.bodies():
                out["violations"].append(("unsupported-argument|%s|%s|%s" % (label, how, "body-ran" if audit.bodies() else "accepted"),
                                          "f1 called with an unsupported %s value (%s): %s, bodies run: %d" % (label, how, outcome_, len(audit.bodies())), {"context": label}))
                break
    # the batch form under context arguments: same identity as the single call
    setup_store()
    for n, c in (("{k:1}", {"k": 1}), ("{k:2}", {"k": 2})):
        audit.bodies_reset()
        f = fx.f1.with_context_args(c)
        f.call_batch([{"a": 5}])
        ran = len(audit.bodies())
        mm = f.memento(5)
        got = None if mm is None else mm.invocation_metadata.fn_reference_with_args.arg_hash
        want = models.ref_arg_hash({"a": 5}, c, fn_info)
        out["evaluations"] += 1
        out["transitions"] += 1
        out["traces"] += 1
        if ran != 1 or got != want or fx.f1.memento(5) is not None:
            out["violations"].append(("context|batch|identity", "f1.with_context_args(%s).call_batch([{a:5}]): bodies run %d (expected 1), key under that context %s "
                                      "(documented %s), memento without context present: %s" % (n, ran, got and got[:12], want[:12], fx.f1.memento(5) is not None), {"context": n}))
            break
    return out


REDEF_SIGS = [["a", "b"], ["b", "a"], ["a", "b", "c"], ["c", "a", "b"], ["a"]]


def _redef_child(root, sig_a, sig_b):
    """Define r(<sig_a>), use it, re-define it as r(<sig_b>) in the running process (module rewritten + reload), then
    every presentation of a full binding must give the documented key and hand the body the right values."""
    import importlib
    import sys

    from .. import audit

    audit.install()
    setup_store()
    pkg = os.path.join(root, "vfr")
    os.makedirs(pkg)
    open(os.path.join(pkg, "__init__.py"), "w").close()

    def write(sig, version):
        with open(os.path.join(pkg, "mod.py"), "w") as fh:
            fh.write("import sys\nimport twosigma.memento as m\n\n\n@m.memento_function(cluster='vfc', version=%r)\ndef r(%s):\n"
                     "    sys.audit('vf.body', 'r', {%s})\n    return 1\n" % (version, ", ".join(sig), ", ".join("%r: %s" % (p, p) for p in sig)))

    sys.path.insert(0, root)
    write(sig_a, "1")
    importlib.invalidate_caches()
    mod = importlib.import_module("vfr.mod")
    vals = {"a": 10, "b": "bee", "c": 2.5}
    res = []
    for k, sig in enumerate((sig_a, sig_b)):
        if k == 1:
            os.utime(os.path.join(pkg, "mod.py"))
            write(sig_b, "2")
            importlib.invalidate_caches()
            mod = importlib.reload(mod)
        binding = {p: vals[p] for p in sig}
        want = models.ref_arg_hash(binding, None, fn_info)
        for combo in presentations(sig, set()):
            f, pos, kw = apply_presentation(mod.r, combo, binding)
            try:
                fra = f.fn_reference().with_args(*pos, **kw)
                h = fra.arg_hash
            except Exception as e:
                res.append((k, combo, "raised", repr(e)[:120]))
                continue
            if h != want:
                res.append((k, combo, "hash-differs", "%s vs documented %s" % (h[:12], want[:12])))
                continue
            audit.bodies_reset()
            mod.r.forget_all()
            try:
                f(*pos, **kw)
            except Exception as e:
                res.append((k, combo, "call-raised", repr(e)[:120]))
                continue
            got = [b[1] for b in audit.bodies() if b[0] == "r"]
            if got != [binding]:
                res.append((k, combo, "body-received", "%r, bound %r" % (got, binding)))
        res.append((k, None, "ok", len(presentations(sig, set()))))
    return res


def _refn_child(root):
    """A memento function handed over as an argument is part of the key WITH its version: after it is re-versioned in
    the running process (a variable it reads changes) the same function object is another argument value."""
    import importlib
    import sys

    from .. import audit

    audit.install()
    setup_store()
    pkg = os.path.join(root, "vfa")
    os.makedirs(pkg)
    open(os.path.join(pkg, "__init__.py"), "w").close()
    with open(os.path.join(pkg, "mod.py"), "w") as fh:
        fh.write("import sys\nimport twosigma.memento as m\n\nSCALE = 1\n\n\n@m.memento_function(cluster='vfc')\ndef scaled(x):\n"
                 "    sys.audit('vf.body', 'scaled', x)\n    return x * SCALE\n\n\n@m.memento_function(cluster='vfc', version='1')\n"
                 "def apply_fn(fn, x):\n    sys.audit('vf.body', 'apply_fn', x)\n    return fn(x)\n")
    sys.path.insert(0, root)
    mod = importlib.import_module("vfa.mod")
    res = []
    kept_partial = mod.apply_fn.partial(mod.scaled)
    for step, scale in enumerate((1, 10, 10, 7)):
        mod.SCALE = scale
        qn = mod.scaled.fn_reference().qualified_name
        want = models.ref_arg_hash({"fn": mod.scaled, "x": 3}, None, fn_info)
        got = mod.apply_fn.fn_reference().with_args(mod.scaled, 3).arg_hash
        got_p = kept_partial.fn_reference().with_args(3).arg_hash if step != 2 else mod.apply_fn.partial(mod.scaled).fn_reference().with_args(x=3).arg_hash
        audit.bodies_reset()
        val = mod.apply_fn(mod.scaled, 3)
        res.append({"step": step, "scale": scale, "qn": qn, "hash_ok": got == want, "partial_hash_ok": got_p == want, "value": val,
                    "bodies": [b[0] for b in audit.bodies()]})
    return res


def refn_case(_):
    from .. import farm
    from ..core import HarnessError, rm

    root = scratch_dir("c04f")
    out = {"evaluations": 1, "states": 4, "transitions": 4, "traces": 1, "violations": [], "outcomes": ["refn"]}
    try:
        res = farm.fork_call(_refn_child, root)
    except farm.ChildFailed as e:
        raise HarnessError("function-argument child failed: %s" % e)
    finally:
        rm(root)
    seen = set()
    for r in res:
        new = r["scale"] not in seen
        seen.add(r["scale"])
        bad = None
        if not r["hash_ok"]:
            bad = ("hash-differs", "key of apply_fn(scaled, 3) is not the documented hash naming %s" % r["qn"])
        elif not r["partial_hash_ok"]:
            bad = ("partial-hash-differs", "key of apply_fn.partial(scaled)(3) is not the documented hash naming %s" % r["qn"])
        elif r["value"] != 3 * r["scale"]:
            bad = ("stale-value", "apply_fn(scaled, 3) returned %r with SCALE = %s" % (r["value"], r["scale"]))
        elif bool(r["bodies"]) != new:
            bad = ("hit-miss", "apply_fn(scaled, 3) with SCALE = %s ran bodies %s (first time under this version: %s)" % (r["scale"], r["bodies"], new))
        if bad:
            out["violations"].append(("fn-argument-reversioned|step:%d|%s" % (r["step"], bad[0]), bad[1] + "\nsteps: %s" % res, {"refn": True}))
            break
    return out


def redef_case(args):
    from .. import farm

    sig_a, sig_b = args
    root = scratch_dir("c04r")
    out = {"evaluations": 1, "states": 2, "transitions": 0, "traces": 1, "violations": [], "outcomes": []}
    try:
        res = farm.fork_call(_redef_child, root, sig_a, sig_b)
    except farm.ChildFailed as e:
        from ..core import HarnessError

        raise HarnessError("re-definition child failed for %s -> %s: %s" % (sig_a, sig_b, e))
    finally:
        from ..core import rm

        rm(root)
    for k, combo, what, detail in res:
        if what == "ok":
            out["transitions"] += detail
            continue
        which = "first-definition" if k == 0 else "after-redefinition"
        out["violations"].append(("redefine|%s|%s" % (which, what), "r(%s)%s, presentation %s: %s %s"
                                  % (", ".join(sig_b if k else sig_a), " after having been r(%s) in this process" % ", ".join(sig_a) if k else "",
                                     combo, what, detail), {"redefine": [sig_a, sig_b]}))
        break
    out["outcomes"].append("redef:%s->%s" % (sig_a, sig_b))
    return out


def run(ctx):
    thorough = ctx.tier == "thorough"
    from ..fixtures import c04fx as fx

    ctx.rule = ("bindings = every value of the alphabet (27 atoms incl. bool/int/float/str look-alikes, -0.0, NaN, inf, non-ASCII, "
                "dates, naive/aware datetimes; containers depth %d incl. two dict insertion orders and keys needing JSON "
                "escapes; function references with partials) on 1-parameter functions, and atom combinations on 2/3-"
                "parameter, keyword-only and **kwargs signatures, each through ALL presentations; all ordered value pairs "
                "for injectivity; context-argument dictionaries. distinct = bindings / value pairs." % (2 if thorough else 1))
    ctx.assumptions += ["equal normalized values = equal canonical encodings (two aware datetimes of one instant at different offsets differ)",
                        "an empty context-args dict is the same identity as none (only non-empty context args enter the hash)",
                        "a keyword partial followed by positional arguments binds the positionals to the remaining parameters"]
    allv = values.arg_atoms() + values.containers(values.arg_atoms(), 2 if thorough else 1) + fn_atoms()
    tasks = []
    for n, _ in allv:
        tasks.append(("f1", (("a", n),), ctx.tier))
    combos = [("1", "'a'"), ("True", "1"), ("None", "[]"), ("dt-utc", "{k:1}"), ("fn:g.partial(1)", "0.5"), ("'é'", "{y:'a',x:1}"),
              ("nan", "inf"), ("-0.0", "0.0"), ("date", "dt-midnight")]
    for a, b in combos:
        tasks.append(("f2", (("a", a), ("b", b)), ctx.tier))
        tasks.append(("f2d", (("a", a), ("b", b)), ctx.tier))
        tasks.append(("fk", (("a", a), ("k", b)), ctx.tier))
        tasks.append(("fkw", (("a", a), ("extra", b)), ctx.tier))
        tasks.append(("fkw", (("a", a), ("zeta", b), ("extra", a)), ctx.tier))
        tasks.append(("f3", (("a", a), ("b", b), ("c", "'1'")), ctx.tier))
    if ctx.seed:
        import random

        random.Random(ctx.seed).shuffle(tasks)
    r1 = binding_case(tasks[0])
    r2 = binding_case(tasks[0])
    ctx.selfcheck("one binding gives identical observations twice", r1["outcomes"] == r2["outcomes"] and r1["violations"] == r2["violations"])
    ctx.merge(pmap(binding_case, tasks, chunksize=2))
    names = [n for n, _ in allv if not n.startswith("[[") and not n.startswith("{k:[")]
    chunks = [names[i:i + 8] for i in range(0, len(names), 8)]
    ctx.merge(pmap(pair_case, [(c, ctx.tier) for c in chunks], chunksize=1))
    ctx.merge([context_case(None)])
    ctx.merge(pmap(redef_case, [(a, b) for a in REDEF_SIGS for b in REDEF_SIGS if a != b], chunksize=1))
    ctx.merge([refn_case(None)])
    ctx.rule += (" Plus: a 3-level call chain under each context (identity and documented key of the nested calls); every ordered pair "
                 "of 5 signatures as definition / re-definition of one function in a running process, all presentations after each.")
    ctx.extra["presentations_3_params"] = len(presentations(["a", "b", "c"], set()))
    ctx.extra["values"] = len(allv)
    ctx.sample({"function": "f3", "binding": {"a": 1, "b": "a", "c": "1"}, "some_presentations": [list(map(list, c)) for c in presentations(["a", "b", "c"], set())[:4]]})


def replay(ctx, art):
    a = art["artefact"]
    if "binding" in a:
        r = binding_case((a["function"], tuple(tuple(b) for b in a["binding"]), a.get("tier", "quick")))
    elif "pair" in a:
        r = pair_case(([a["pair"][0]], "quick"))
    elif "refn" in a:
        r = refn_case(None)
    elif "redefine" in a:
        r = redef_case((a["redefine"][0], a["redefine"][1]))
    else:
        r = context_case(None)
    for v in r["violations"]:
        print(v[0], "\n", v[1])
    print("REPLAY property=C04 result=%s" % bool(r["violations"]))
    return 1 if r["violations"] else 0

"""C16 - context arguments key results, flow to nested calls, stay out of parameters.

Call trees (chain and diamond) x context dictionaries at the root x per-edge {inherit, override
with {}, override with {k:3}} x ordered PAIRS of root contexts run one after the other on the
same store (so every sub-call is met both un-memoized and memoized) x backends; plus
prevent-further-calls at the root and at an inner call with the nested call memoized or not.
Oracle: a reference propagation model (effective context = own override, else the caller's).
"""
import itertools
import json
import os

from ..core import scratch_dir, rm, pmap
from . import c09

preimport = c09.preimport  # the concurrent part runs under the controlled scheduler (vf/sched.py)

ROOT_CTX = [None, {}, {"k": 1}, {"k": 2}, {"k": 1, "j": "@fn"}, {"plan": 1}, {"plan": 2}]  # "plan" is also the parameter name of every node
EDGE = [None, {}, {"k": 3}]


def canon(c):
    return json.dumps(c or {}, sort_keys=True)


def reached(node, plan, eff, seen, out, vals):
    """Reference traversal with memoization: first occurrence of (node, plan, ctx) runs the body."""
    key = (node, json.dumps(plan), canon(eff))
    if key in seen:
        return vals[key]
    seen.add(key)
    out.append(key)
    val = ["n%d" % node]
    for act in plan:
        if act[0] == "ctx":
            child_eff = act[3] if act[3] is not None else eff
            val.append(reached(act[1], act[2], child_eff, seen, out, vals))
    vals[key] = val
    return val


def real_ctx(c, fx):
    if not c and c is not None:
        return {}
    return None if c is None else {k: (fx.n3 if v == "@fn" else v) for k, v in c.items()}


def norm_ctx(c):
    return {k: ("@fn" if hasattr(v, "fn_reference") else v) for k, v in (c or {}).items()}


def shapes(thorough):
    out = []
    for e1, e2 in itertools.product(EDGE, repeat=2):
        out.append([["ctx", 1, [["ctx", 2, [], e2]], e1]])
    for e1, e2, e3 in itertools.product(EDGE, repeat=3):
        for e4 in (EDGE if thorough else [e3]):
            out.append([["ctx", 1, [["ctx", 3, [], e3]], e1], ["ctx", 2, [["ctx", 3, [], e4]], e2]])
    return out


def pair_case(args):
    from .c15 import mk_backend, use
    from .. import audit
    from ..fixtures import c10fx as fx

    kind, plan, ca, cb = args[:4]
    how = args[4] if len(args) > 4 else "call"
    nodes = {0: fx.n0, 1: fx.n1, 2: fx.n2, 3: fx.n3}
    top = scratch_dir("c16")
    out = {"evaluations": 1, "states": 1, "transitions": 0, "traces": 1, "violations": [], "outcomes": []}
    try:
        use(mk_backend(kind, os.path.join(top, "s")))
        seen, vals = set(), {}
        for which, c in (("first", ca), ("second", cb)):
            new = []
            want_val = reached(0, plan, c, seen, new, vals)
            f = fx.n0
            if how == "local-first":
                f = f.force_local()
            f = f if c is None else f.with_context_args(real_ctx(c, fx))
            if how == "then-local":  # a per-call modifier applied AFTER the context arguments were attached
                f = f.force_local()
            audit.bodies_reset()
            try:
                if how == "batch":  # the batch form of the same root call
                    got = f.call_batch([{"plan": plan}])[0]
                else:
                    got = f(plan)
            except Exception as e:
                got = "EXC:%s:%s" % (type(e).__name__, str(e)[:80])
            bodies = audit.bodies()
            out["transitions"] += len(new)
            bad = None
            if got != want_val:
                bad = ("value", "root returned %r, expected %r" % (got, want_val))
            else:
                leak = [b for b in bodies if b[1]["kwargs"]]
                got_calls = sorted((b[0], json.dumps(b[1]["plan"])) for b in bodies)
                want_calls = sorted(("n%d" % n, p) for (n, p, _) in new)
                if leak:
                    bad = ("context-in-parameters", "body of %s received extra parameters %s" % (leak[0][0], leak[0][1]["kwargs"]))
                elif got_calls != want_calls:
                    more = len(got_calls) > len(want_calls)
                    bad = ("recomputed-same-context" if more else "served-across-contexts",
                           "%s run (root context %s after %s): bodies run %s, calls not yet memoized under their effective context %s"
                           % (which, cb if which == "second" else ca, ca if which == "second" else "-", got_calls, want_calls))
            if bad is None:
                for (n, p, ce) in new:
                    eff = json.loads(ce)
                    g = nodes[n] if not eff else nodes[n].with_context_args(real_ctx(eff, fx))
                    mm = g.memento(json.loads(p))
                    if mm is None:
                        bad = ("no-memento-under-effective-context", "n%d(%s) has no memento under effective context %s" % (n, p, ce))
                        break
                    rec = norm_ctx(mm.invocation_metadata.fn_reference_with_args.context_args)
                    if canon(rec) != ce:
                        bad = ("recorded-context", "n%d(%s) recorded context %s, effective context is %s" % (n, p, canon(rec), ce))
                        break
            if bad:
                edges = "+".join("inherit" if a is None else ("empty" if a == {} else "override") for a in _edges(plan))
                sig = "%s|%s|root:%s|edges:%s|%s%s" % (kind, which, "none" if not c else "ctx", edges, bad[0], "|root-invoked:" + how if how != "call" else "")
                out["violations"].append((sig, bad[1] + "\nbackend=%s plan=%s contexts=(%s, %s) root invoked: %s" % (kind, plan, ca, cb, how), {"pair": [kind, plan, ca, cb, how]}))
                break
        if not out["violations"]:
            # the records as they come back from the store (a new backend object: nothing is served from memory): every
            # invocation listed in a record carries the context arguments that call was made under
            if kind != "mem":
                use(mk_backend("fs", os.path.join(top, "s")))
            for (n, pj, ce) in sorted(seen):
                eff = json.loads(ce)
                pl = json.loads(pj)
                g = nodes[n] if not eff else nodes[n].with_context_args(real_ctx(eff, fx))
                mm = g.memento(pl)
                if mm is None:
                    continue
                want_inv = [canon(act[3] if act[3] is not None else eff) for act in pl if act[0] == "ctx"]
                got_inv = [canon(norm_ctx(i.context_args)) for i in mm.invocation_metadata.invocations]
                out["transitions"] += 1
                if got_inv != want_inv:
                    edges = "+".join("inherit" if a is None else ("empty" if a == {} else "override") for a in _edges(plan))
                    out["violations"].append(("%s|stored-record|edges:%s|invocation-context" % (kind, edges),
                                              "the stored record of n%d(%s) under %s lists its invocations under contexts %s, they were made under %s\nbackend=%s plan=%s contexts=(%s, %s)"
                                              % (n, pj, ce, got_inv, want_inv, kind, plan, ca, cb), {"pair": [kind, plan, ca, cb, how]}))
                    break
        out["outcomes"].append("%s|%s|%s" % (json.dumps(plan), canon(ca), canon(cb)))
    finally:
        rm(top)
    return out


def _edges(plan):
    for act in plan:
        if act[0] == "ctx":
            yield act[3]
            yield from _edges(act[2])


def pfc_case(args):
    from .c15 import mk_backend, use
    from .. import audit
    from ..fixtures import c10fx as fx

    kind, where, premem, c = args
    top = scratch_dir("c16p")
    out = {"evaluations": 1, "states": 1, "transitions": 1, "traces": 1, "violations": [], "outcomes": []}
    try:
        use(mk_backend(kind, os.path.join(top, "s")))
        rc = real_ctx(c, fx)
        inner_plan = [["r", "pfc-%s" % where]]
        if premem:  # the nested call is already memoized (under the context it would be called with)
            (fx.n2 if not c else fx.n2.with_context_args(rc))(inner_plan)
        audit.bodies_reset()
        if where in ("root", "root-then-local"):
            f = fx.n0.with_prevent_further_calls(True)
            f = f if c is None else f.with_context_args(rc)
            if where == "root-then-local":
                f = f.force_local()
            plan = [["x", 2, inner_plan]]
            want = ["n0", "exc:RuntimeError"]
        elif where in ("explicit-root", "explicit-root-batch"):
            # the prevented call is to a function with a declared version
            f = fx.ne.with_prevent_further_calls(True)
            f = f if c is None else f.with_context_args(rc)
            plan = [["x", 2, inner_plan]] if where == "explicit-root" else [["b", 2, [inner_plan]]]
            want = ["ne", "exc:RuntimeError"] if where == "explicit-root" else "EXC:RuntimeError"
        else:
            f = fx.n0 if c is None else fx.n0.with_context_args(rc)
            plan = [["pfc", 1, [["x", 2, inner_plan]]]]
            want = ["n0", ["n1", "exc:RuntimeError"]]
        try:
            got = f(plan)
        except Exception as e:
            got = "EXC:%s" % type(e).__name__
        ran = [b[0] for b in audit.bodies()]
        bad = None
        if "n2" in ran:
            bad = ("nested-executed", "nested call executed although further calls are prevented (bodies %s)" % ran)
        elif got != want and not (where == "explicit-root-batch" and got == ["ne", ["exc:RuntimeError"]]):
            bad = ("nested-not-refused", "got %r, expected %r (nested memento call must fail with RuntimeError)" % (got, want))
        if bad:
            sig = "pfc|%s|at:%s|nested-memoized:%s|%s" % (kind, where, premem, bad[0])
            out["violations"].append((sig, bad[1] + "\nbackend=%s context=%s" % (kind, c), {"pfc": [kind, where, premem, c]}))
        out["outcomes"].append("pfc|%s|%s|%s" % (where, premem, canon(c)))
    finally:
        rm(top)
    return out


def aftermath_case(args):
    """A call made under context arguments / with further calls prevented FAILS half way (the store reports an I/O error at
    its k-th look-up): nothing of that call may stick to the thread - the next, unrelated top-level calls are ordinary calls."""
    from .c15 import mk_backend, use
    from .. import audit
    from ..fixtures import c10fx as fx

    kind, what, k = args
    top = scratch_dir("c16a")
    out = {"evaluations": 1, "states": 1, "transitions": 2, "traces": 1, "violations": [], "outcomes": ["aftermath|%s|%s|%d" % (kind, what, k)]}
    try:
        b = mk_backend(kind, os.path.join(top, "s"))
        use(b)
        real = b.get_mementos
        count = [0]

        def flaky(fns):
            count[0] += 1
            if count[0] == k:
                raise IOError("injected: the store cannot be reached")
            return real(fns)

        b.get_mementos = flaky
        f = fx.n0.with_context_args({"k": 1}) if what == "context" else fx.n0.with_prevent_further_calls(True)
        try:
            f([["r", "first"]])
            first = "returned"
        except Exception as e:
            first = type(e).__name__
        b.get_mementos = real
        audit.bodies_reset()
        try:
            got = fx.n1([["c", 3, []]])  # an ordinary call with a nested call, no modifiers
        except Exception as e:
            got = "EXC:%s:%s" % (type(e).__name__, str(e)[:60])
        bad = None
        if got != ["n1", ["n3"]]:
            bad = ("later-call-affected", "after the failed call (%s), the ordinary call n1 -> n3 gave %r" % (first, got))
        else:
            for node, plan in ((fx.n1, [["c", 3, []]]), (fx.n3, [])):
                mm = node.memento(plan)
                if mm is None or mm.invocation_metadata.fn_reference_with_args.context_args:
                    bad = ("later-call-context", "after the failed call (%s), %s(%s) is stored %s" % (first, node.__name__, plan, "under context arguments of the failed call" if mm else "nowhere without context arguments"))
                    break
        if bad:
            out["violations"].append(("aftermath|%s|failed-call:%s|%s" % (kind, what, bad[0]), bad[1] + "\nbackend=%s the store failed at look-up #%d" % (kind, k), {"aftermath": [kind, what, k]}))
    finally:
        rm(top)
    return out


# context dictionaries whose values compare equal in Python although they are different arguments (and some that do not)
LOOKALIKE_CTX = [{"level": 1}, {"level": True}, {"level": 1.0}, {"level": "1"}, {"level": 0}, {"level": False}, {"level": [1]}, {"level": [True]},
                 {"level": 1, "k": 2}, {"k": 2}]


def reattach_case(args):
    """Context arguments attached to a function object that already carries some replace them (as on an inner edge); and
    forget() through a function object that carries context arguments forgets the call made under them, nothing else."""
    from .c15 import mk_backend, use
    from .. import audit
    from ..fixtures import c10fx as fx

    kind, A, B, op = args
    A, B = dict(A), dict(B)  # (two dictionary objects, as the documentation of with_context_args asks)
    plan = [["c", 3, []]]
    top = scratch_dir("c16r")
    out = {"evaluations": 1, "states": 1, "transitions": 2, "traces": 1, "violations": [], "outcomes": ["reattach|%s|%s|%s|%s" % (kind, A, B, op)]}
    try:
        use(mk_backend(kind, os.path.join(top, "s")))
        bad = None
        hA, hB = (fx.n1.with_context_args(c).fn_reference().with_args(plan, _memento_context_args=c).arg_hash for c in (A, B))
        stored = lambda c, node=fx.n1, pl=plan: (node.with_context_args(dict(c)) if c is not None else node).memento(pl) is not None  # noqa
        if op == "call":
            f = fx.n1.with_context_args(A).with_context_args(B)
            audit.bodies_reset()
            got = f(plan)
            if got != ["n1", ["n3"]]:
                bad = ("wrong-value", "the call gave %r" % (got,))
            elif not stored(B) or not stored(B, fx.n3, []):
                bad = ("not-under-new-context", "after attaching %r and then %r the call (or its nested call) is not stored under %r" % (A, B, B))
            elif hA != hB and (stored(A) or stored(A, fx.n3, [])):
                bad = ("under-replaced-context", "after attaching %r and then %r the call is stored under %r" % (A, B, A))
            elif stored(None):
                bad = ("under-no-context", "the call is also stored without context arguments")
        elif op == "call-after-first":
            # the call was made under A before; B is attached to the object that carries A
            fa = fx.n1.with_context_args(A)
            fa(plan)
            audit.bodies_reset()
            fa.with_context_args(B)(plan)
            ran = [b[0] for b in audit.bodies()]
            want = [] if hA == hB else ["n1", "n3"]
            if ran != want:
                bad = ("served-across-contexts" if not ran else "recomputed", "under %r after a call under %r the bodies %s ran, expected %s" % (B, A, ran, want))
            elif not stored(B) or not stored(B, fx.n3, []):
                bad = ("not-under-new-context", "the call under %r (made through the object carrying %r) is not stored under %r" % (B, A, B))
        else:  # forget
            fx.n1(plan)
            fx.n1.with_context_args(A)(plan)
            if hA != hB:
                fx.n1.with_context_args(B)(plan)
            fx.n1.with_context_args(A).forget(plan)
            if stored(A):
                bad = ("forget-missed", "forget(...) through the function carrying %r left the call under %r in place" % (A, A))
            elif not stored(None):
                bad = ("forget-too-wide", "forget(...) through the function carrying %r removed the call stored without context arguments" % (A,))
            elif hA != hB and not stored(B):
                bad = ("forget-too-wide", "forget(...) through the function carrying %r removed the call stored under %r" % (A, B))
            else:
                audit.bodies_reset()
                fx.n1(plan)
                fx.n1.with_context_args(A)(plan)
                ran = [b[0] for b in audit.bodies()]
                if ran != ["n1"]:
                    bad = ("forget-aftermath", "after the forget, the plain call and the call under %r ran bodies %s (expected the forgotten one only)" % (A, ran))
        if bad:
            out["violations"].append(("reattach|%s|%s|%s" % (kind, op, bad[0]), bad[1] + "\nbackend=%s first context=%r second context=%r" % (kind, A, B),
                                      {"reattach": [kind, A, B, op]}))
    finally:
        rm(top)
    return out


def run(ctx):
    thorough = ctx.tier == "thorough"
    ctx.rule = ("chain root->mid->leaf (9 edge-override assignments) and diamond root->{mid1,mid2}->leaf (%d assignments) x ordered "
                "pairs of root contexts from {none, {}, {k:1}, {k:2}, {k:1, j:function}} run successively on one store x {memory, "
                "filesystem, filesystem+cache}; the root also invoked with a per-call modifier (force_local) before / after the "
                "context arguments and through call_batch; prevent-further-calls at root / inner call x nested call memoized or not x contexts. "
                "distinct = (plan, first context, second context)." % (81 if thorough else 27))
    ctx.assumptions += ["an empty context dictionary is the same identity as no context (only non-empty context args enter the hash)"]
    tasks = []
    for plan in shapes(thorough):
        for ca, cb in itertools.product(ROOT_CTX, repeat=2):
            for kind in (("mem", "fs", "fsc") if thorough else (("fsc",) if len(plan) > 1 else ("mem", "fs", "fsc"))):
                tasks.append((kind, plan, ca, cb))
    if ctx.seed:
        import random

        random.Random(ctx.seed).shuffle(tasks)
    a = pair_case(tasks[7])
    b = pair_case(tasks[7])
    ctx.selfcheck("one case gives identical observations twice", a["violations"] == b["violations"])
    # other ways of invoking the root: per-call modifiers before / after the context arguments, and the batch form
    for plan in shapes(thorough):
        if len(plan) > 1 and not thorough:
            continue
        for ca, cb in itertools.product(ROOT_CTX, repeat=2):
            for how in ("then-local", "local-first", "batch"):
                tasks.append(("fsc", plan, ca, cb, how))
    ctx.merge(pmap(pair_case, tasks, chunksize=8))
    ptasks = [(k, w, p, c) for k in ("mem", "fs", "fsc") for w in ("root", "root-then-local", "inner", "explicit-root", "explicit-root-batch") for p in (False, True) for c in ROOT_CTX]
    ctx.merge(pmap(pfc_case, ptasks, chunksize=4))
    # context arguments travel down the call stack of the calling THREAD only
    cs = []
    for be in ("mem",) if not thorough else ("mem", "fs+cache-all"):
        cs.append(("%s|cold|context-chain-vs-plain-call" % be, be, "cold", [[("top1@ctx", 1)], [("solo_b", 2)]]))
        cs.append(("%s|cold|context-chain-vs-same-leaf" % be, be, "cold", [[("top1@ctx", 1)], [("leaf", 1)]]))
        cs.append(("%s|cold|context-chain-vs-plain-chain" % be, be, "cold", [[("top1@ctx", 1)], [("top2", 1)]]))
    c09.concurrent_part(ctx, cs, "ctx", "a call chain made under context arguments in one thread while another thread makes calls without "
                        "them (each call must be stored under exactly its own context arguments)", bound=1, deep=(2, "runner", "calls") if thorough else None)
    at = [(kind, what, k) for kind in ("mem", "fsc") for what in ("context", "prevented") for k in (1, 2, 3)]
    ctx.merge(pmap(aftermath_case, at, chunksize=2))
    ctx.rule += " Plus: a call under context arguments / with calls prevented that fails because the store raises at its k-th look-up (k = 1..3); the next ordinary calls are unaffected."
    rt = [(kind, A, B, op) for kind in (("mem", "fsc") if not thorough else ("mem", "fs", "fsc")) for A in LOOKALIKE_CTX for B in LOOKALIKE_CTX
          for op in ("call", "call-after-first", "forget")]
    ctx.merge(pmap(reattach_case, rt, chunksize=8))
    ctx.rule += (" Plus: all ordered pairs of %d context dictionaries whose values are look-alikes (1 / True / 1.0 / '1' / 0 / False / [1] / [True]) attached "
                 "one after the other to ONE function object (call, call after a call under the first, forget through the carrying object)." % len(LOOKALIKE_CTX))
    ctx.extra["reattach_cases"] = len(rt)
    ctx.extra["context_pair_cases"] = len(tasks)
    ctx.extra["prevent_further_calls_cases"] = len(ptasks)
    ctx.sample({"pair": list(tasks[len(tasks) // 2])})
    ctx.sample({"pfc": list(ptasks[5])})


def replay(ctx, art):
    a = art["artefact"]
    if "scn" in a:
        return c09.replay_concurrent("C16", art)
    if "reattach" in a:
        r = reattach_case(tuple(a["reattach"]))
        for v in r["violations"]:
            print(v[0], "\n", v[1])
        print("REPLAY property=C16 result=%s" % bool(r["violations"]))
        return 1 if r["violations"] else 0
    if "aftermath" in a:
        r = aftermath_case(tuple(a["aftermath"]))
        for v in r["violations"]:
            print(v[0], "\n", v[1])
        print("REPLAY property=C16 result=%s" % bool(r["violations"]))
        return 1 if r["violations"] else 0
    r = pair_case(tuple(a["pair"])) if "pair" in a else pfc_case(tuple(a["pfc"]))
    for v in r["violations"]:
        print(v[0], "\n", v[1])
    print("REPLAY property=C16 result=%s" % bool(r["violations"]))
    return 1 if r["violations"] else 0

import importlib
import json
import os
import sys
import traceback

from .core import Ctx, HarnessError, assert_repo_binding

LEVELS = {"C08": "fault_enumeration"}


def main(argv):
    if len(argv) < 2:
        print("usage: vfcheck <ID> <quick|thorough> | vfcheck <ID> --replay <file>")
        return 2
    prop = argv[0].upper()
    from .core import scratch_top

    scratch_top()  # one scratch directory per run (also TMPDIR), removed at exit
    mod = importlib.import_module("vf.checks.%s" % prop.lower())
    try:
        # third-party imports first (some checks patch threading before importing memento)
        if hasattr(mod, "preimport"):
            mod.preimport()
        assert_repo_binding()
        import twosigma.memento as m

        m.set_log_level("CRITICAL") if hasattr(m, "set_log_level") else None
        import logging

        logging.getLogger("twosigma.memento").setLevel(logging.CRITICAL)
        logging.disable(logging.CRITICAL)
        if argv[1] == "--replay":
            with open(argv[2]) as f:
                art = json.load(f)
            ctx = Ctx(prop, "quick", LEVELS.get(prop, "model_checking"))
            return mod.replay(ctx, art)
        tier = os.environ.get("VERIF_TIER") or argv[1]
        if argv[1] in ("quick", "thorough"):
            tier = argv[1]
        ctx = Ctx(prop, tier, LEVELS.get(prop, "model_checking"))
        mod.run(ctx)
        return ctx.finish()
    except HarnessError as e:
        print("HARNESS-ERROR property=%s %s" % (prop, e))
        traceback.print_exc()
        return 2
    except Exception as e:  # noqa
        print("HARNESS-ERROR property=%s unexpected %r" % (prop, e))
        traceback.print_exc()
        return 2


if __name__ == "__main__":
    sys.exit(main(sys.argv[1:]))

#!/bin/bash
# tools/cov.sh [ids...]: line coverage of /repo/twosigma/memento under the quick checks (serial, slow); report in /tmp/vfcov
IDS="${@:-C01 C02 C03 C04 C05 C06 C07 C08 C10 C11 C12 C13 C14 C15 C16 C17 C18 C19}"
cd "$(dirname "${BASH_SOURCE[0]}")/.."
OUT=/tmp/vfcov; rm -rf $OUT; mkdir -p $OUT
export VF_REPO=/repo PYTHONPATH=/repo:$PWD PYTHONHASHSEED=0 VF_SERIAL=1 VF_COV=1 COVERAGE_FILE=$OUT/.coverage VF_EVIDENCE_DIR=$OUT/ev VF_VIOLATIONS_DIR=$OUT/viol
for c in $IDS; do
  /venv/bin/python -m coverage run -p --source=/repo/twosigma/memento -m vf.main $c quick > $OUT/$c.log 2>&1
  echo "$c rc=$?"
done
cd $OUT && /venv/bin/python -m coverage combine -q && /venv/bin/python -m coverage report -m --skip-empty > $OUT/report.txt; tail -30 $OUT/report.txt

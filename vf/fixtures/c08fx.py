"""Functions for the crash / fault scenarios (C08). Explicit versions; bodies announce themselves."""
import sys

import twosigma.memento as m
from twosigma.memento.partition import InMemoryPartition
from twosigma.memento.result import KeyOverrideResult


@m.memento_function(cluster="vfc", version="1")
def f_str(x):
    sys.audit("vf.body", "f_str", x)
    return "str-%s" % x


@m.memento_function(cluster="vfc", version="1")
def f_same_a(x):
    sys.audit("vf.body", "f_same_a", x)
    return "identical-bytes"


@m.memento_function(cluster="vfc", version="1")
def f_same_b(x):
    sys.audit("vf.body", "f_same_b", x)
    return "identical-bytes"


@m.memento_function(cluster="vfc", version="1")
def f_override(x):
    sys.audit("vf.body", "f_override", x)
    return KeyOverrideResult("ko-%s" % x, "ko/key%s" % x)


@m.memento_function(cluster="vfc", version="1")
def f_part(x):
    sys.audit("vf.body", "f_part", x)
    return InMemoryPartition({"a": "part-a-%s" % x, "b": "identical-bytes"})


@m.memento_function(cluster="vfc", version="1")
def f_child(x):
    sys.audit("vf.body", "f_child", x)
    p = InMemoryPartition({"d": "child-d-%s" % x})
    p._merge_parent = f_part(x)  # the partition returned by another memoized call is the merge parent
    return p


@m.memento_function(cluster="vfc", version="1")
def f_exc(x):
    sys.audit("vf.body", "f_exc", x)
    raise ValueError("boom-%s" % x)


@m.memento_function(cluster="vfc", version="1")
def f_none(x):
    sys.audit("vf.body", "f_none", x)
    return None


@m.memento_function(cluster="vfc", version="1")
def f_big(x):
    sys.audit("vf.body", "f_big", x)
    return "big-%s-" % x + "B" * 100000  # larger than the 64 KiB memory cache of the cached configurations


def expected(name, x):
    """Reference result of the plain function (kind, payload)."""
    if name == "f_str":
        return ("val", "str-%s" % x)
    if name in ("f_same_a", "f_same_b"):
        return ("val", "identical-bytes")
    if name == "f_override":
        return ("val", "ko-%s" % x)
    if name == "f_part":
        return ("part", {"a": "part-a-%s" % x, "b": "identical-bytes"})
    if name == "f_child":
        return ("part", {"a": "part-a-%s" % x, "b": "identical-bytes", "d": "child-d-%s" % x})
    if name == "f_exc":
        return ("exc", ("ValueError", "boom-%s" % x))
    if name == "f_big":
        return ("val", "big-%s-" % x + "B" * 100000)
    if name == "f_none":
        return ("val", None)
    raise KeyError(name)

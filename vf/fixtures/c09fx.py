"""Functions for the concurrency scenarios (C09, C10 concurrent part). Bodies announce themselves.

g / h carry explicit versions; the others are automatically versioned (so the run-time dependency
check applies to them) and form a small call tree: top1 -> mid -> leaf, top2 -> mid -> leaf;
solo_a and solo_b call nothing and are in nobody's dependency closure.
"""
import sys

import twosigma.memento as m


@m.memento_function(cluster="vfc", version="1")
def g(x):
    sys.audit("vf.body", "g", x)
    return "val-%s" % x


@m.memento_function(cluster="vfc", version="1")
def h(x):
    sys.audit("vf.body", "h", x)
    return "other-%s" % x


@m.memento_function(cluster="vfc")
def solo_a(x):
    sys.audit("vf.body", "solo_a", x)
    return "a-%s" % x


@m.memento_function(cluster="vfc")
def solo_b(x):
    sys.audit("vf.body", "solo_b", x)
    return "b-%s" % x


@m.memento_function(cluster="vfc")
def leaf(x):
    sys.audit("vf.body", "leaf", x)
    return "leaf-%s" % x


@m.memento_function(cluster="vfc")
def mid(x):
    sys.audit("vf.body", "mid", x)
    return "mid(%s)" % leaf(x)


@m.memento_function(cluster="vfc")
def top1(x):
    sys.audit("vf.body", "top1", x)
    return "top1(%s)" % mid(x)


@m.memento_function(cluster="vfc")
def top2(x):
    sys.audit("vf.body", "top2", x)
    return "top2(%s)" % mid(x)


# the reference: what an un-memoized program returns, and the call tree below each call
CALLS = {"g": (), "h": (), "solo_a": (), "solo_b": (), "leaf": (), "mid": ("leaf",), "top1": ("mid",), "top2": ("mid",)}
_FMT = {"g": "val-%s", "h": "other-%s", "solo_a": "a-%s", "solo_b": "b-%s", "leaf": "leaf-%s", "mid": "mid(%s)",
        "top1": "top1(%s)", "top2": "top2(%s)"}


def expected(fn, x):
    inner = CALLS[fn]
    return _FMT[fn] % (expected(inner[0], x) if inner else x)


def closure(fn, x):
    """All distinct (function, argument) calls made by fn(x), itself included, in call order."""
    out = [(fn, x)]
    for c in CALLS[fn]:
        out += closure(c, x)
    return out

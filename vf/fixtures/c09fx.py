"""Functions for the concurrency scenarios (C09). Explicit versions; bodies announce themselves."""
import sys

import twosigma.memento as m


@m.memento_function(cluster="vfc", version="1")
def g(x):
    sys.audit("vf.body", "g", x)
    return "val-%s" % x


@m.memento_function(cluster="vfc", version="1")
def h(x):
    sys.audit("vf.body", "h", x)
    return "other-%s" % x

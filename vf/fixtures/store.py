"""Memento functions used by the storage-level checks (C05/C06/C07/C19).

Explicit versions: the code hash machinery is not involved.  ``fn`` / ``fn1`` give a pair of
names one of which is a prefix of the other; versions "1" / "10" are crafted on references.
Bodies announce themselves through ``sys.audit`` (invisible to versions, exact run counts).
"""
import sys

import twosigma.memento as m


@m.memento_function(cluster="vfc", version="1")
def fn(x):
    sys.audit("vf.body", "fn", x)
    return "computed-fn-%s" % x


@m.memento_function(cluster="vfc", version="1")
def fn1(x):
    sys.audit("vf.body", "fn1", x)
    return "computed-fn1-%s" % x


@m.memento_function(cluster="vfc", version="1")
def gn(x):
    sys.audit("vf.body", "gn", x)
    return "computed-gn-%s" % x


def _call_fn(x):
    try:
        return fn(x)
    except RuntimeError:
        return "refused"


@m.memento_function(cluster="vfo", version="1", dependencies=[fn])
def outer_other(x):
    """Lives in another cluster (local runner) and calls fn, which lives in cluster vfc."""
    sys.audit("vf.body", "outer_other", x)
    return ["outer", _call_fn(x)]


@m.memento_function(cluster="vfc", version="1", dependencies=[fn])
def outer_same(x):
    """Same cluster as fn; run through force_local() when the cluster's runner refuses."""
    sys.audit("vf.body", "outer_same", x)
    return ["outer", _call_fn(x)]

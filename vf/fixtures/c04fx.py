"""Functions with the signatures exercised by C04 (argument identity). Explicit versions."""
import sys

import twosigma.memento as m


@m.memento_function(cluster="vfc", version="1")
def f1(a):
    sys.audit("vf.body", "f1", {"a": a})
    return 1


@m.memento_function(cluster="vfc", version="1")
def f2(a, b):
    sys.audit("vf.body", "f2", {"a": a, "b": b})
    return 1


@m.memento_function(cluster="vfc", version="1")
def f2d(a, b=5):
    sys.audit("vf.body", "f2d", {"a": a, "b": b})
    return 1


@m.memento_function(cluster="vfc", version="1")
def f3(a, b, c=None):
    sys.audit("vf.body", "f3", {"a": a, "b": b, "c": c})
    return 1


@m.memento_function(cluster="vfc", version="1")
def fk(a, *, k=1):
    sys.audit("vf.body", "fk", {"a": a, "k": k})
    return 1


@m.memento_function(cluster="vfc", version="1")
def fkw(a, **kw):
    d = {"a": a}
    d.update(kw)
    sys.audit("vf.body", "fkw", d)
    return 1


@m.memento_function(cluster="vfc", version="1")
def g(p, q=0, *, k=0):
    sys.audit("vf.body", "g", {"p": p, "q": q, "k": k})
    return 2


@m.memento_function(cluster="vfc", version="1")
def cleaf(a):
    sys.audit("vf.body", "cleaf", {"a": a})
    return a


@m.memento_function(cluster="vfc", version="1", dependencies=[cleaf])
def cmid(a):
    sys.audit("vf.body", "cmid", {"a": a})
    return cleaf(a)


@m.memento_function(cluster="vfc", version="1", dependencies=[cmid])
def ctop(a):
    sys.audit("vf.body", "ctop", {"a": a})
    return cmid(a)


SIGS = {"f1": ["a"], "f2": ["a", "b"], "f2d": ["a", "b"], "f3": ["a", "b", "c"], "fk": ["a", "k"], "fkw": ["a"]}
KWONLY = {"fk": {"k"}, "fkw": {"extra", "zeta"}}


class Outer:
    """A memento function living in a class nested in another class (qualified name with two dots)."""

    class Inner:
        @staticmethod
        @m.memento_function(cluster="vfc", version="1")
        def sfn(a, b=2):
            sys.audit("vf.body", "sfn", (a, b))
            return ["sfn", a, b]


import importlib
import json
import os
import sys
import traceback

from .core import Ctx, HarnessError, assert_repo_binding

LEVELS = {"C08": "fault_enumeration"}
SCHED_PROPS = {"C06", "C07", "C09", "C10", "C14", "C16", "C17"}


def main(argv):
    if len(argv) < 2:
        print("usage: vfcheck <ID> <quick|thorough> | vfcheck <ID> --replay <file>")
        return 2
    prop = argv[0].upper()
    from .core import scratch_top

    scratch_top()  # one scratch directory per run (also TMPDIR), removed at exit
    if prop in SCHED_PROPS:
        # these checks run (part of) their exploration under the controlled thread scheduler: the lock factories have to
        # be in place before anything imports the library
        importlib.import_module("vf.checks.c09").preimport()
    mod = importlib.import_module("vf.checks.%s" % prop.lower())
    try:
        # third-party imports first (some checks patch threading before importing memento)
        if hasattr(mod, "preimport"):
            mod.preimport()
        assert_repo_binding()
        import twosigma.memento as m

        m.set_log_level("CRITICAL") if hasattr(m, "set_log_level") else None
        import logging

        logging.getLogger("twosigma.memento").setLevel(logging.CRITICAL)
        logging.disable(logging.CRITICAL)
        if argv[1] == "--replay":
            with open(argv[2]) as f:
                art = json.load(f)
            ctx = Ctx(prop, "quick", LEVELS.get(prop, "model_checking"))
            return mod.replay(ctx, art)
        tier = os.environ.get("VERIF_TIER") or argv[1]
        if argv[1] in ("quick", "thorough"):
            tier = argv[1]
        ctx = Ctx(prop, tier, LEVELS.get(prop, "model_checking"))
        mod.run(ctx)
        return ctx.finish()
    except HarnessError as e:
        print("HARNESS-ERROR property=%s %s" % (prop, e))
        traceback.print_exc()
        return 2
    except Exception as e:  # noqa
        print("HARNESS-ERROR property=%s unexpected %r" % (prop, e))
        traceback.print_exc()
        return 2


if __name__ == "__main__":
    sys.exit(main(sys.argv[1:]))

"""A second module defining an exception class with the same qualified name as one in c02fx."""


class Custom1(Exception):
    pass

#!/usr/bin/env python3
"""tools/keepseed.py <PROP> <letter> [srcdir]: confirm a sub-agent's mutation in a scratch worktree
(demo passes on the clean tree, suite passes with the patch, demo fails with the patch) and keep it
under /verif/seeded/<PROP><letter>/. Nothing is ever applied to /repo itself."""
import json
import os
import shutil
import subprocess
import sys
import tempfile

prop, letter = sys.argv[1], sys.argv[2]
src = sys.argv[3] if len(sys.argv) > 3 else "/tmp/mut_out/%s" % prop
name = sys.argv[4] if len(sys.argv) > 4 else "%s%s" % (prop, letter)
patch = os.path.join(src, "patch_%s.diff" % letter)
demo = os.path.join(src, "demo_%s.py" % letter)
notes = os.path.join(src, "notes_%s.md" % letter)
wt = tempfile.mkdtemp(prefix="vfseed_", dir="/tmp")
os.rmdir(wt)


def sh(cmd, **kw):
    return subprocess.run(cmd, shell=True, capture_output=True, text=True, **kw)


ran = []
try:
    r = sh("git -C /repo worktree add --detach %s HEAD -q" % wt)
    assert r.returncode == 0, r.stderr
    env = dict(os.environ, PYTHONPATH=wt, PYTHONHASHSEED="0")
    democmd = "cd %s && /venv/bin/python %s %s" % (wt, demo, wt)
    r0 = sh(democmd, env=env, timeout=600)
    ran.append({"cmd": "demo on clean tree", "exit": r0.returncode})
    ra = sh("git -C %s apply %s" % (wt, patch))
    if ra.returncode != 0:
        print(name, "PATCH DOES NOT APPLY", ra.stderr)
        sys.exit(1)
    rt = sh("cd %s && /venv/bin/python -m pytest -q -p no:cacheprovider 2>&1 | tail -1" % wt, env=env, timeout=900)
    ran.append({"cmd": "pytest with patch", "summary": rt.stdout.strip()})
    r1 = sh(democmd, env=env, timeout=600)
    ran.append({"cmd": "demo with patch", "exit": r1.returncode, "tail": r1.stdout.strip().splitlines()[-3:]})
    ok = r0.returncode == 0 and r1.returncode != 0 and "319 passed" in rt.stdout and "failed" not in rt.stdout
    print(name, "clean-demo=%d patched-demo=%d tests=%s -> %s" % (r0.returncode, r1.returncode, rt.stdout.strip(), "KEEP" if ok else "REJECT"))
    if ok:
        d = os.path.join(os.path.dirname(os.path.dirname(os.path.abspath(__file__))), "seeded", name)
        os.makedirs(d, exist_ok=True)
        shutil.copy(patch, os.path.join(d, "patch.diff"))
        shutil.copy(demo, os.path.join(d, "demo.py"))
        note = open(notes).read() if os.path.exists(notes) else ""
        meta = {"id": name, "breaks_property": prop, "source": "independent sub-agent given only the property text and a scratch worktree",
                "needs_to_manifest": note, "base_commit": sh("git -C /repo rev-parse --short HEAD").stdout.strip(),
                "confirmed": ran, "detected_by": {}}
        mp = os.path.join(d, "meta.json")
        if os.path.exists(mp):
            meta["detected_by"] = json.load(open(mp)).get("detected_by", {})
        json.dump(meta, open(mp, "w"), indent=1)
finally:
    sh("git -C /repo worktree remove --force %s" % wt)
    shutil.rmtree(wt, ignore_errors=True)

"""C19 - read-only and null back-ends never write and never execute.

A store is populated through a writable backend, then reopened read-only (flag by argument, by
storage config, by cluster config; with and without memory cache; memory backend with populated
dictionaries).  BFS over histories of storage operations and function-level calls; after every
transition the directory-tree digest must equal the initial one AND the audit monitor must have
seen no mutating file-system event under the store roots; reads answer as the dictionary model.
Null storage / null runner: all operation sequences to a depth (no state merging).
"""
import copy
import itertools
import os

from ..core import HarnessError, scratch_dir, rm
from .. import audit, storeh
from .. import bfs as vbfs
from ..storemc import StoreRun, KEYS, MB

POPULATE = (("memo", 0, "s", None), ("memo", 1, "X", None), ("memo", 2, "t", "ov/k#1"),
            ("wmeta", 0, "log", False), ("wmeta", 2, "aux", True))

# "+damaged": the data object of one memoized call (key 0) was lost before the store is opened read-only
VARIANTS = ["arg", "config", "cluster-config", "arg+cache", "cluster-config+cache", "mem", "arg+damaged", "cluster-config+cache+damaged",
            "config-reused", "cluster-config-reused",
            "arg+linkbroken", "arg+cache+linkbroken", "arg+truncated",
            "arg-over-config+rebuilt",
            "arg+copied", "cluster-config+cache+copied"]  # "+copied": the populated store was copied to another directory and the COPY is opened read-only (its links name files by the path they were written under)  # read_only=True given over a config that says "readonly": False, then dumped and rebuilt  # "+linkbroken": the memento link of one call (key 0) was left empty by an interrupted write  # "-reused": the configuration dict object had already been used to build a backend

_roots = {}


def _scratch(tag):
    pid = os.getpid()
    if (pid, tag) not in _roots:
        _roots[(pid, tag)] = os.path.join(scratch_dir(tag), "store")
    return _roots[(pid, tag)]


def set_env(cluster):
    import twosigma.memento as m
    from twosigma.memento.storage_memory import MemoryStorageBackend

    # a second, ordinary cluster (memory storage, local runner) for callers living elsewhere
    other = m.FunctionCluster(name="vfo", storage=MemoryStorageBackend())
    repo = m.ConfigurationRepository(name="vfrepo", clusters={"vfc": cluster, "vfo": other})
    m.Environment.set(m.Environment(name="vfenv", base_dir=os.path.dirname(_scratch("env")), repos=[repo]))


def mem_snapshot(be):
    return (tuple(sorted((qn, tuple(sorted((h, id(mm)) for h, mm in d.items()))) for qn, d in be.mementos.items() if d)),
            tuple(sorted((k, id(v)) for k, v in be.result.items())),
            tuple(sorted((k, tuple(sorted(v.items()))) for k, v in be.metadata.items() if v)))


class RORun:
    def __init__(self, variant, root):
        import twosigma.memento as m
        from twosigma.memento.storage_filesystem import FilesystemStorageBackend
        from twosigma.memento.storage_memory import MemoryStorageBackend
        from twosigma.memento.runner_local import LocalRunnerBackend

        self.variant = variant
        kind = "mem" if variant == "mem" else "fs"
        self.w = StoreRun(kind if kind == "mem" else "fs+m", root, KEYS)
        for op in POPULATE:
            bad = self.w.step(op)
            if bad:
                raise HarnessError("population failed: %s" % (bad,))
        w = self.w
        self.damaged = None
        self.linkbroken = False
        if "truncated" in variant:  # the memento document of key 0 was cut short (its link is intact)
            sym, arg = KEYS[0]
            h = storeh.refargs(sym, arg).arg_hash
            docs = [os.path.join(dp, f) for dp, _, fs in os.walk(w.mpath) for f in fs
                    if f == h + ".memento.json" and "fn#1" + os.sep in dp + os.sep]
            if len(docs) != 1:
                raise HarnessError("cannot find the memento document of key 0: %s" % docs)
            data = open(docs[0], "rb").read()
            open(docs[0], "wb").write(data[: len(data) // 2])
            self.damaged = 0
            self.linkbroken = True
        if "linkbroken" in variant:
            sym, arg = KEYS[0]
            h = storeh.refargs(sym, arg).arg_hash
            links = [os.path.join(dp, f) for dp, _, fs in os.walk(w.mpath) for f in fs
                     if f == h + ".memento.json.link" and dp.endswith("fn#1")]
            if len(links) != 1:
                raise HarnessError("cannot find the memento link of key 0: %s" % links)
            open(links[0], "w").close()
            self.damaged = 0
            self.linkbroken = True
        if "damaged" in variant:
            ck = w.mem[0].content_key
            path = os.path.join(w.dpath, "c", ".versions", ck.version, ck.key.split("/", 1)[1])
            if not os.path.isfile(path):
                raise HarnessError("cannot find the data object of key 0 to remove it: %s" % path)
            os.unlink(path)
            self.damaged = 0
        self.extra_roots = []
        if "copied" in variant:
            import shutil

            cdir = w.root.rstrip("/") + "-copy"
            rm(cdir)
            shutil.copytree(w.root, cdir, symlinks=True)
            self.extra_roots = [w.dpath, w.mpath]  # (the original must stay untouched as well)
            w.dpath, w.mpath = os.path.join(cdir, "d"), os.path.join(cdir, "m")
        cache = 4096 / MB if "cache" in variant else None
        if kind == "fs":
            if variant.startswith("arg-over-config"):
                be = FilesystemStorageBackend(config={"path": w.dpath, "metadata_path": w.mpath, "readonly": False}, read_only=True)
                cluster = m.FunctionCluster(name="vfc", storage=be)
            elif variant.startswith("arg"):
                be = FilesystemStorageBackend(path=w.dpath, metadata_path=w.mpath, memory_cache_mb=cache, read_only=True)
                cluster = m.FunctionCluster(name="vfc", storage=be)
            elif variant.startswith("config"):
                cfg = {"path": w.dpath, "metadata_path": w.mpath, "readonly": True}
                if "reused" in variant:
                    FilesystemStorageBackend(config=cfg)  # the caller's dict must still say what it said
                be = FilesystemStorageBackend(config=cfg)
                cluster = m.FunctionCluster(name="vfc", storage=be)
            else:
                sc = {"type": "filesystem", "path": w.dpath, "metadata_path": w.mpath, "readonly": True}
                if cache:
                    sc["memory_cache_mb"] = cache
                if "reused" in variant:
                    m.FunctionCluster(config={"name": "vfc", "storage": sc})
                cluster = m.FunctionCluster(config={"name": "vfc", "storage": sc})
                be = cluster.storage
            self.roots = [w.dpath, w.mpath] + self.extra_roots
            self.digest0 = tuple(storeh.tree_digest(r) for r in self.roots)
        else:
            be = MemoryStorageBackend(read_only=True) if True else None
            be.mementos.update({k: dict(v) for k, v in w.be.mementos.items()})
            be.result.update(w.be.result)
            be.metadata.update({k: dict(v) for k, v in w.be.metadata.items()})
            cluster = m.FunctionCluster(name="vfc", storage=be)
            self.roots = []
            self.digest0 = mem_snapshot(be)
        if not be.read_only:
            # the flag itself is part of what is verified (config route)
            self.flag_lost = True
        else:
            self.flag_lost = False
        set_env(cluster)
        if "rebuilt" in variant:
            # the environment is dumped and built again from its dump: the rebuilt store must be just as read-only
            env2 = m.Environment(config=m.Environment.get().to_dict())
            m.Environment.set(env2)
            be = env2.get_cluster("vfc").storage
            if not be.read_only:
                self.flag_lost = True
        self.be = be
        w.be = be  # reads are checked by the shared StoreRun logic against the model
        self.log = []

    def digest(self):
        if self.variant == "mem":
            return mem_snapshot(self.be)
        return tuple(storeh.tree_digest(r) for r in self.roots)

    def canon(self):
        c = getattr(self.be, "_memory_cache", None)
        cache = ()
        if c is not None:
            cache = (tuple(c.lru_deque), tuple(sorted((k, e.obj_size, e.has_value) for k, e in c.cache.items())))
        ghosts = ()
        if self.variant == "mem":
            ghosts = (tuple(sorted(self.be.mementos)), tuple(sorted(self.be.metadata)))
        from ..core import object_state

        return (cache, ghosts, object_state(self.be, roots=self.roots))

    def step(self, op):
        from ..fixtures import store as fx
        import twosigma.memento as m

        kind = op[0]
        bad = None
        audit.bodies_reset()
        with audit.watch(*self.roots) as wt:
            try:
                if kind == "memo":
                    _, ki, cls, override = op
                    sym, arg = KEYS[ki]
                    mem = storeh.mk_memento(sym, arg, "zzz", 999)
                    try:
                        self.be.memoize(override, mem, "zzz")
                    except Exception as e:
                        bad = ("memoize-raised", "memoize on a read-only backend raised %r instead of being skipped" % (e,))
                elif kind in ("fc", "ff", "fe", "wmeta"):
                    try:
                        if kind == "fc":
                            self.be.forget_call(storeh.rah(*KEYS[op[1]]))
                        elif kind == "ff":
                            self.be.forget_function(storeh.ref(op[1]))
                        elif kind == "fe":
                            self.be.forget_everything()
                        else:
                            ck = self.w.mem[op[1]].content_key if op[3] else None
                            self.be.write_metadata(storeh.rah(*KEYS[op[1]]), op[2], b"new", store_with_content_key=ck)
                        bad = ("not-rejected", "%s was accepted by a read-only backend" % kind)
                    except Exception:
                        pass
                elif kind == "call":
                    _, name, arg, modifier = op
                    f = getattr(fx, name)
                    if modifier == "ignore":
                        f = f.ignore_result()
                    elif modifier == "local":
                        f = f.force_local()
                    ki = next((i for i, (s, a) in enumerate(KEYS) if s == name + "#1" and a == arg), None)
                    memoized = ki is not None and self.w.model.live(ki) and (ki != self.damaged or (modifier == "ignore" and not self.linkbroken))
                    try:
                        got = f(arg)
                    except Exception as e:
                        got = e
                    nb = len(audit.bodies())
                    if ki is not None and ki == self.damaged and "truncated" in self.variant:
                        pass  # a cut-short memento document: whatever the call does (the library raises), nothing may be modified
                    elif memoized:
                        want = None if modifier == "ignore" else None
                        if nb != 0:
                            bad = ("body-ran", "call of a memoized function ran its body %d times" % nb)
                        elif modifier != "ignore" and not self.w.same_value(got, ki):
                            bad = ("wrong-value", "memoized call returned %.40r" % (got,))
                    else:
                        want = None if modifier == "ignore" else "computed-%s-%s" % (name, arg)
                        if nb != 1:
                            bad = ("body-count", "un-memoized call on a read-only store ran the body %d times" % nb)
                        elif got != want:
                            bad = ("wrong-value", "un-memoized call returned %.40r, expected %r" % (got, want))
                elif kind in ("fforget", "fforget_all", "fput_meta", "forget_cluster"):
                    f = fx.fn
                    try:
                        if kind == "fforget":
                            f.forget(op[1])
                        elif kind == "fforget_all":
                            f.forget_all()
                        elif kind == "fput_meta":
                            f.put_metadata("log", b"new", op[1], store_with_data=op[2])
                        else:
                            m.forget_cluster("vfc")
                        bad = ("not-rejected", "%s was accepted on a read-only store" % kind)
                    except Exception:
                        pass
                elif self.linkbroken and kind in ("getm", "ism", "isall", "lsm", "lsf", "rmeta", "read") and (
                        (kind in ("getm", "ism", "read", "rmeta") and op[1] == 0) or (kind == "isall" and 0 in op[1]) or kind in ("lsm", "lsf")):
                    # whatever these answer about the half-written entry (absent, or an error) - they must not change the store
                    try:
                        self.w.step(op)
                    except Exception:
                        pass
                elif kind == "read" and op[1] == self.damaged:
                    # the result of this call is lost: the read may fail in any way - but must not change the store
                    try:
                        self.be.read_result(self.be.get_memento(storeh.rah(*KEYS[op[1]])))
                    except Exception:
                        pass
                else:
                    b = self.w.step(op)  # read operations: answers as the dictionary
                    if b:
                        bad = b
            except HarnessError:
                raise
        if self.flag_lost:
            bad = bad or ("flag-lost", "backend configured read-only reports read_only=%r" % (self.be.read_only,))
        if wt.mutations:
            bad = ("mutating-event", "%s issued %s under the store roots" % (kind, wt.mutations[:2]))
        elif self.digest() != self.digest0:
            bad = ("tree-changed", "%s changed the contents of the store" % kind)
        self.log.append((op, bad))
        return bad


def alphabet():
    ops = []
    for ki in range(len(KEYS)):
        ops += [("getm", ki), ("read", ki), ("ism", ki), ("fc", ki)]
    ops += [("memo", 0, "s", None), ("memo", 3, "s", None), ("memo", 0, "s", "ov/k#1"), ("memo", 3, "N", "ov/k#1")]
    ops += [("wmeta", 0, "log", False), ("wmeta", 0, "log", True), ("wmeta", 2, "aux", True), ("rmeta", 0, "log"), ("rmeta", 2, "aux")]
    ops += [("ff", "fn#1"), ("ff", "fn1#1"), ("fe",), ("lsf",), ("lsm", "fn#1"), ("lsm", "fn#10"), ("isall", (0, 1))]
    ops += [("call", "fn", 1, None), ("call", "fn", 2, None), ("call", "fn", 3, None), ("call", "fn1", 1, None),
            ("call", "fn", 1, "ignore"), ("call", "fn", 3, "ignore"), ("call", "fn", 3, "local"),
            ("fforget", 1), ("fforget", 3), ("fforget_all",), ("fput_meta", 1, False), ("fput_meta", 1, True),
            ("forget_cluster",)]
    return ops


def build(cfg, hist):
    variant, depth, seed = cfg
    run = RORun(variant, _scratch("ro"))
    for op in hist:
        run.step(op)
    return run


def expand(cfg, hist):
    variant, depth, seed = cfg
    out = []
    if len(hist) >= depth:
        return out
    ops = alphabet()
    if seed:
        import random

        random.Random(seed).shuffle(ops)
    for op in ops:
        run = build(cfg, hist)
        bad = run.step(op)
        if bad:
            sig = "ro:%s|%s|%s" % (variant, op[0] + (":with-data" if op[0] in ("wmeta", "fput_meta") and op[-1] is True else ""), bad[0])
            out.append((op, None, (sig, bad[1] + "\nvariant=%s history: %s" % (variant, list(hist) + [op]),
                                   {"mode": "ro", "variant": variant, "history": [list(o) for o in hist] + [list(op)]}), None))
            continue
        k = run.canon()
        out.append((op, vbfs.digest(k), None, "%s:%s" % (variant, vbfs.digest(k)[:8])))
    return out


# ---------------------------------------------------------------------------------------------
# null storage / null runner: all operation sequences to a depth
# ---------------------------------------------------------------------------------------------

NULL_OPS = [("call", 1), ("call", 2), ("batch", (1, 2, 1)), ("ignore", 1), ("ctx", 1), ("memoize", 1), ("ism", 1),
            ("getm", 1), ("lsf",), ("forget", 1), ("memento", 1)]


def null_seq(args):
    mode, seq = args
    import twosigma.memento as m
    from twosigma.memento.storage_null import NullStorageBackend
    from twosigma.memento.runner_null import NullRunnerBackend
    from ..fixtures import store as fx

    out = {"evaluations": 1, "transitions": len(seq), "traces": 1, "violations": [], "outcomes": []}
    root = _scratch("null")
    rm(root)
    os.makedirs(root)
    if mode == "null-storage":
        be = NullStorageBackend()
        cluster = m.FunctionCluster(name="vfc", storage=be)
    elif mode == "null-storage-config":
        cluster = m.FunctionCluster(config={"name": "vfc", "storage": {"type": "null"}})
        be = cluster.storage
    else:
        w = StoreRun("fs", root, KEYS)
        w.step(("memo", 0, "s", None))
        be = w.be
        if mode == "null-runner":
            cluster = m.FunctionCluster(name="vfc", storage=be, runner=NullRunnerBackend())
        else:
            cluster = m.FunctionCluster(config={"name": "vfc", "runner": {"type": "null"}}, storage=be)
    set_env(cluster)
    obs = []
    for i, op in enumerate(seq):
        audit.bodies_reset()
        bad = None
        kind = op[0]
        try:
            if kind in ("call", "ignore", "ctx", "batch"):
                f = fx.fn
                if kind == "ignore":
                    f = f.ignore_result()
                if kind == "ctx":
                    f = f.with_context_args({"k": 1})
                try:
                    got = f.call_batch([{"x": a} for a in op[1]]) if kind == "batch" else f(op[1])
                    raised = None
                except Exception as e:
                    got, raised = None, e
                nb = len(audit.bodies())
                if mode.startswith("null-storage"):
                    want_n = len(op[1]) if kind == "batch" else 1
                    want = ["computed-fn-%s" % a for a in op[1]] if kind == "batch" else (None if kind == "ignore" else "computed-fn-%s" % op[1])
                    if raised is not None:
                        bad = ("raised", "call on null storage raised %r" % (raised,))
                    elif nb != want_n:
                        bad = ("body-count", "null storage: body ran %d times for %s, expected %d (never memoized)" % (nb, op, want_n))
                    elif got != want:
                        bad = ("wrong-value", "null storage: %s returned %r" % (op, got))
                else:
                    if nb != 0:
                        bad = ("body-ran", "null runner executed a function body (%s)" % (op,))
                    elif raised is None:
                        bad = ("not-refused", "null runner returned %r for %s instead of refusing" % (got, op))
                obs.append((kind, nb, type(raised).__name__ if raised else None))
            elif kind in ("nested-other", "nested-same"):
                # the refused function is called from inside a running function (of another cluster with the local runner,
                # or of the same cluster run through force_local): it still must not execute
                f = fx.outer_other if kind == "nested-other" else fx.outer_same.force_local()
                try:
                    got = f(op[1])
                except Exception as e:
                    got = "EXC:%r" % (e,)
                ran = [b[0] for b in audit.bodies()]
                if "fn" in ran:
                    bad = ("body-ran", "null runner: the body of fn ran when called from inside %s (%s)" % (kind, ran))
                elif got != ["outer", "refused"]:
                    bad = ("not-refused", "null runner: nested call returned %r instead of being refused" % (got,))
                obs.append((kind, len(ran), None))
            elif mode.startswith("null-storage"):
                if kind == "memoize":
                    be.memoize(None, storeh.mk_memento("fn#1", op[1], "v", 1), "v")
                elif kind == "ism":
                    if be.is_memoized(storeh.ref("fn#1"), storeh.refargs("fn#1", op[1]).arg_hash):
                        bad = ("reports-memoized", "null storage reports a call as memoized")
                elif kind == "getm":
                    if be.get_memento(storeh.rah("fn#1", op[1])) is not None:
                        bad = ("reports-memoized", "null storage returned a memento")
                elif kind == "lsf":
                    if be.list_functions():
                        bad = ("reports-memoized", "null storage lists functions")
                elif kind == "forget":
                    fx.fn.forget(op[1])
                elif kind == "memento":
                    if fx.fn.memento(op[1]) is not None:
                        bad = ("reports-memoized", "null storage returned a memento through the function API")
        except Exception as e:
            import traceback

            bad = ("raised", "%s raised %r\n%s" % (op, e, traceback.format_exc(limit=4)))
        if bad:
            sig = "%s|%s|%s" % (mode, kind, bad[0])
            out["violations"].append((sig, bad[1] + "\nsequence: %s" % (list(seq[:i + 1]),),
                                      {"mode": mode, "history": [list(o) for o in seq[:i + 1]]}))
            break
    out["outcomes"].append("%s:%s" % (mode, obs))
    return out


def run(ctx):
    from ..core import pmap

    thorough = ctx.tier == "thorough"
    depth = 6 if thorough else 3
    ctx.rule = ("read-only: BFS over histories of storage ops (memoize, lookups, reads, listings, forget call/function/"
                "everything, metadata writes plain/with-data) and function-level ops (calls of memoized and un-memoized "
                "functions with modifiers, forget, forget_all, put_metadata, forget_cluster) on a pre-populated store "
                "opened read-only in 6 ways (2 more with the data object of one call lost beforehand, 2 more with the memento link of one call left empty, 2 more from a configuration dict that was used before); oracle after each transition: no mutating audit event under the roots, tree "
                "digest unchanged, reads answer as the model, writes skipped or rejected. null storage/runner: every "
                "operation sequence to depth 3 (no merging). distinct = canonical (cache, ghost-entry) states and "
                "distinct observation vectors.")
    ctx.assumptions += ["'rejected' = the operation raises and changes nothing (exception type not prescribed)",
                        "force_local replaces the cluster runner by design and is excluded from the null-runner clause"]
    r0 = build(("arg+cache", 2, 0), (("read", 0), ("call", "fn", 1, None)))
    r1 = build(("arg+cache", 2, 0), (("read", 0), ("call", "fn", 1, None)))
    ctx.selfcheck("same history twice gives the same canonical state", r0.canon() == r1.canon())
    per = []
    for variant in VARIANTS:
        cfg = (variant, depth, ctx.seed)
        init = vbfs.digest(build(cfg, ()).canon())
        r = vbfs.explore(expand, cfg, init, max_depth=depth, label="ro:" + variant)
        r["caps"] = [c for c in r["caps"] if "depth cap" not in c]
        ctx.merge([r])
        per.append({"variant": variant, "states": r["states"], "transitions": r["transitions"], "closure": r["closure"]})
    ctx.extra["read_only_variants"] = per
    nd = 3
    tasks = []
    for mode in ("null-storage", "null-storage-config", "null-runner", "null-runner-config"):
        ops = NULL_OPS if mode.startswith("null-storage") else [o for o in NULL_OPS if o[0] in ("call", "ignore", "ctx", "batch")] + [("nested-other", 1), ("nested-other", 2), ("nested-same", 2)]
        for d in range(1, nd + 1):
            for seq in itertools.product(ops, repeat=d):
                tasks.append((mode, seq))
    res = pmap(null_seq, tasks, chunksize=64)
    ctx.merge(res)
    ctx.states += len(tasks)
    ctx.extra["null_sequences"] = len(tasks)
    ctx.sample({"mode": "null-runner", "sequence": [list(o) for o in tasks[-1][1]]})
    ctx.count(evaluations=ctx.transitions)


def replay(ctx, art):
    a = art["artefact"]
    hist = [tuple(tuple(x) if isinstance(x, list) else x for x in o) for o in a["history"]]
    if a["mode"] == "ro":
        run = RORun(a["variant"], _scratch("ro"))
        bad = None
        for op in hist:
            bad = run.step(op)
            print(op, "->", bad)
    else:
        r = null_seq((a["mode"], hist))
        bad = r["violations"][0][:2] if r["violations"] else None
    print("REPLAY property=C19 result=%s" % (bad,))
    return 1 if bad else 0

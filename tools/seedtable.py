#!/usr/bin/env python3
"""tools/seedtable.py [suffix-filter]: markdown rows (seeded change | what it changes | caught by) from seeded/*/meta.json"""
import glob
import json
import os
import re
import sys

HERE = os.path.dirname(os.path.dirname(os.path.abspath(__file__)))
flt = sys.argv[1] if len(sys.argv) > 1 else ""
for d in sorted(glob.glob(os.path.join(HERE, "seeded", "*"))):
    name = os.path.basename(d)
    if flt and flt not in name:
        continue
    m = json.load(open(os.path.join(d, "meta.json")))
    lines = [l.strip() for l in m.get("needs_to_manifest", "").splitlines() if l.strip()]
    title = lines[0].lstrip("# ").strip() if lines else ""
    title = re.sub(r"^(C\d\d\w*\s*)?(r\d\s*)?(change|mutant|mutation)?\s*\(?[abAB]?\)?\s*[:\-–—]+\s*", "", title, flags=re.I)
    if len(title) < 20 and len(lines) > 1:
        title = (title + " " + lines[1].lstrip("-* ")).strip()
    title = title.replace("|", "/")[:150]
    det = m.get("detected_by", {})
    own = det.get("%s/quick" % m["breaks_property"], {})
    caught = "%s `%s`" % (m["breaks_property"], (own.get("keys") or ["?"])[0][:70]) if own.get("verdict") == "caught" else (m.get("note", own.get("verdict", "?"))[:120])
    print("| %s | %s | %s |" % (name, title, caught))
